"""C18 - split partitions its input, evaluating each element once; exhaust drains.

Symbolic: element values, condition values, the order in which the two result iterators are
advanced, which (if any) iterator is abandoned.  Fixed per cell: lengths and the kind of source /
condition object (they only select which C-level itertools path is taken).
"""
import vfw.prelude  # noqa: F401
from typing import List

from vfw.cells import Cell
from aiuti import itertools as ai

LAST_INFO = None
RAW = None

SRC_KINDS = ('list', 'iterator', 'iterable')
COND_KINDS = ('bools', 'ints', 'callable', 'iterator')


class _Src:
    """Instrumented source; counts successful element pulls over all iterators made from it."""

    def __init__(self, items, kind):
        self.items = items
        self.kind = kind
        self.pulls = 0
        self.iters = 0
        self._it = None

    def _gen(self):
        for x in self.items:
            self.pulls += 1
            yield x

    def make(self):
        if self.kind == 'list':
            # a real list cannot be instrumented; wrap it so that __iter__ is observable
            return self
        if self.kind == 'iterable':
            return self
        return self._gen()

    def __iter__(self):
        self.iters += 1
        return self._gen()


def scen_split(src, cond, order, abandon, src_kind, cond_kind):
    """Returns the list of deviation signatures observed (empty = property held)."""
    global LAST_INFO
    devs = []
    n_src = len(src)
    source = _Src(src, src_kind)
    calls = []  # (arg) per predicate call
    over = [False]

    if cond_kind == 'callable':
        def condition(x):
            k = len(calls)
            calls.append(x)
            if k >= len(cond):
                over[0] = True
                return False
            return cond[k]
        n = n_src
        truth = [bool(cond[i]) for i in range(min(n, len(cond)))]
    else:
        if cond_kind == 'ints':
            truth_all = [c != 0 for c in cond]
        else:
            truth_all = [bool(c) for c in cond]
        condition = iter(cond) if cond_kind == 'iterator' else cond
        n = min(n_src, len(cond))
        truth = truth_all[:n]

    try:
        it_true, it_false = ai.split(source.make() if src_kind != 'list' else _ListLike(source), condition)
    except Exception as e:  # noqa
        return ['split-raised:' + type(e).__name__]

    got = {True: [], False: []}
    ended = {True: False, False: False}

    def advance(which):
        it = it_true if which else it_false
        try:
            got[which].append(next(it))
        except StopIteration:
            ended[which] = True
        except Exception as e:  # noqa
            devs.append('iterator-raised:' + type(e).__name__)
            ended[which] = True

    steps = 0
    for b in order:
        advance(bool(b))
        steps += 1
    if abandon in (1, 2):
        # abandoning = dropping the iterator for good: close it if it can be closed and lose the reference
        victim = it_true if abandon == 1 else it_false
        try:
            if hasattr(victim, 'close'):
                victim.close()
        except Exception as e:  # noqa
            devs.append('close-raised:' + type(e).__name__)
        if abandon == 1:
            it_true = None
        else:
            it_false = None
        del victim
    for which in (True, False):
        if abandon == (1 if which else 2):
            continue
        guard = 0
        while not ended[which] and guard < n_src + 3:
            advance(which)
            guard += 1
        if not ended[which]:
            devs.append('iterator-does-not-end')

    exp = {True: [src[i] for i in range(n) if truth[i]],
           False: [src[i] for i in range(n) if not truth[i]]}
    for which in (True, False):
        g = got[which]
        e = exp[which]
        if abandon == (1 if which else 2):
            if g != e[:len(g)]:
                devs.append('wrong-elements:' + ('true' if which else 'false'))
        elif g != e:
            devs.append('wrong-elements:' + ('true' if which else 'false'))
    if source.pulls > n_src:
        devs.append('source-consumed-more-than-once-per-element')
    if cond_kind == 'callable':
        if over[0] or len(calls) > n_src:
            devs.append('predicate-called-more-than-once-per-element')
        elif abandon == 0 and len(calls) != n_src:
            devs.append('predicate-not-called-for-every-element')
        elif calls != src[:len(calls)]:
            devs.append('predicate-called-with-wrong-argument')
    global RAW
    RAW = {'got_true': got[True], 'got_false': got[False]}
    if not vfw.prelude.tracing():
        LAST_INFO = {'src': list(src), 'cond': list(cond), 'order': list(order), 'abandon': abandon,
                 'got_true': got[True], 'got_false': got[False], 'expected_true': exp[True],
                 'expected_false': exp[False], 'pulls': source.pulls, 'predicate_calls': len(calls)}
    return devs


class _ListLike:
    """A re-iterable that is not an iterator (like list/range): every __iter__ starts afresh."""

    def __init__(self, s):
        self.s = s

    def __iter__(self):
        self.s.iters += 1
        return self.s._gen()


def scen_exhaust(src, kind):
    global LAST_INFO
    devs = []
    source = _Src(src, 'iterator' if kind == 'iterator' else 'iterable')
    seen = []

    def gen():
        for x in source.make():
            seen.append(x)
            yield x
    r = ai.exhaust(gen() if kind != 'map' else map(seen.append, source.make()))
    if r is not None:
        devs.append('exhaust-returned-value')
    if seen != src if kind != 'map' else len(seen) != len(src):
        devs.append('exhaust-did-not-drain')
    if not vfw.prelude.tracing():
        LAST_INFO = {'src': list(src), 'seen': len(seen)}
    return devs


def twin_split(src, cond, order):
    """Reachability: 'both outputs non-empty and consumption really interleaved' never happens."""
    devs = scen_split(src, cond, order, 0, 'iterator', 'callable')
    if devs:
        return []
    info = RAW
    interesting = (len(info['got_true']) >= 1 and len(info['got_false']) >= 1
                   and any(order) and not all(order))
    return ['reached'] if interesting else []


def _cell(s, c, o, sk, ck, tier, timeout=150, abandon=None):
    ctype = 'int' if ck == 'ints' else 'bool'
    pre = ['len(src) == %d and len(cond) == %d and len(order) == %d' % (s, c, o),
           '0 <= abandon <= 2' if abandon is None else 'abandon == %d' % abandon]
    return Cell(
        name='split_%s_%s_s%d_c%d_o%d%s' % (sk, ck, s, c, o, '' if abandon is None else '_ab%d' % abandon),
        sig='src: List[int], cond: List[%s], order: List[bool], abandon: int' % ctype,
        pre=pre,
        body='H.scen_split(src, cond, order, abandon, %r, %r)' % (sk, ck),
        tier=tier, timeout=timeout, family='split')


def cells(prop, tier):
    out = []
    # quick: every kind combination at small sizes, plus length mismatches
    quick_shapes = [(2, 2, 3), (3, 2, 3), (2, 3, 3)]
    for sk in SRC_KINDS:
        for ck in COND_KINDS:
            for (s, c, o) in quick_shapes:
                if ck == 'callable' and c != s:
                    continue
                out.append(_cell(s, c, o, sk, ck, 'quick'))
    out.append(_cell(3, 3, 4, 'iterator', 'callable', 'quick'))
    out.append(_cell(3, 3, 4, 'iterator', 'bools', 'quick'))
    for ab in range(3):
        out.append(_cell(5, 5, 4, 'iterator', 'bools', 'quick', timeout=400, abandon=ab))
        out.append(_cell(5, 5, 4, 'list', 'callable', 'quick' if ab == 0 else 'thorough', timeout=400, abandon=ab))
    out.append(_cell(0, 2, 2, 'iterator', 'bools', 'quick'))
    out.append(_cell(2, 0, 2, 'list', 'bools', 'quick'))
    for kind in ('iterator', 'iterable', 'map'):
        out.append(Cell(name='exhaust_%s' % kind, sig='src: List[int]', pre=['len(src) <= 4'],
                        body='H.scen_exhaust(src, %r)' % kind, tier='quick', timeout=60, family='exhaust'))
    out.append(Cell(name='twin_split', sig='src: List[int], cond: List[bool], order: List[bool]',
                    pre=['len(src) == 3 and len(cond) == 3 and len(order) == 3'],
                    body='H.twin_split(src, cond, order)', expect='refute', timeout=60, family='split'))
    if tier != 'thorough':
        out = [c for c in out if c.tier == 'quick']
    if tier == 'thorough':
        for sk in SRC_KINDS:
            for ck in COND_KINDS:
                for (s, c, o) in [(3, 3, 5), (4, 4, 4), (4, 3, 4), (3, 5, 4), (5, 5, 3)]:
                    if ck == 'callable' and c != s:
                        continue
                    out.append(_cell(s, c, o, sk, ck, 'thorough', timeout=600))
        out.append(_cell(4, 4, 6, 'iterator', 'callable', 'thorough', timeout=900))
        out.append(_cell(6, 6, 2, 'iterator', 'bools', 'thorough', timeout=900))
        out.append(_cell(7, 7, 0, 'iterator', 'callable', 'thorough', timeout=900))
    return out


META = {'C18': {
    'explanation': 'split() and exhaust() from /repo/aiuti/itertools.py are executed by CrossHair on symbolic element '
                   'values (int), symbolic condition values (bool / truthy-falsy int / stateful predicate table), a '
                   'symbolic consumption order of the two result iterators and a symbolic choice of abandoned iterator; '
                   'the oracle compares both outputs with the reference partition of the first min(len) elements and '
                   'counts predicate calls and source pulls through instrumented iterators.',
    'functions': [('aiuti/itertools.py', 'split'), ('aiuti/itertools.py', 'exhaust')],
    'bounds': 'lengths fixed per cell: quick src<=3, cond<=3, order<=4; thorough src<=7, cond<=7, order<=6; '
              'all int element values, all bool/int condition values, all consumption orders of the stated length, '
              'abandon in {none,true-iterator,false-iterator}; source given as iterator / re-iterable; condition as list, '
              'iterator, truthy ints, stateful callable',
    'outside': 'longer inputs; element types other than int; laziness (how far ahead the source is pulled) is not asserted',
    'assumptions': ['CPython itertools.tee/compress/map are executed natively on the symbolic values (trusted)',
                    'CrossHair 0.0.110 path exhaustion is sound'],
}}


def conformance(prop):
    # repository doctests through the harness oracle (translator validation of the oracle itself)
    from itertools import cycle
    assert scen_split([0, 1, 2, 3, 4], [True, False, True, False, True], [True, False], 0, 'list', 'bools') == []
    assert scen_split([0, 1, 2, 3, 4], [True, False, True, False, True], [], 0, 'iterator', 'callable') == []
    assert scen_exhaust([1, 2, 3], 'map') == []
