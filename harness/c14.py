"""C14 - cache keys: same arguments share an entry, different arguments never do; the supplied
mapping is the only store.

Family F1 (solver-decided): the cache is a harness MutableMapping that finds keys by == only (no
hashing), positional and keyword *values* are symbolic ints, so z3 decides every equal/unequal
pattern over all integers.  Family F2 (enumeration through symbolic indices, default dict cache):
values from a small mixed-type domain (0, 1, 1.0, True, 'a', equal-but-distinct tuples).
Family F3: eviction sequences on the supplied mapping.
"""
import vfw.prelude  # noqa: F401
from collections.abc import MutableMapping

from vfw.cells import Cell
from vfw import vloop, loader

M = loader.asyncio_S()
LAST_INFO = None


class ListMap(MutableMapping):
    """Retaining MutableMapping without hashing: lookup by == over an association list."""

    def __init__(self):
        self.pairs = []
        self.log = []

    def __getitem__(self, k):
        for kk, v in self.pairs:
            if kk == k:
                self.log.append('hit')
                return v
        self.log.append('miss')
        raise KeyError(k)

    def __setitem__(self, k, v):
        self.log.append('set')
        for i, (kk, _) in enumerate(self.pairs):
            if kk == k:
                self.pairs[i] = (kk, v)
                return
        self.pairs.append((k, v))

    def __delitem__(self, k):
        for i, (kk, _) in enumerate(self.pairs):
            if kk == k:
                del self.pairs[i]
                return
        raise KeyError(k)

    def __iter__(self):
        return iter([k for k, _ in self.pairs])

    def __len__(self):
        return len(self.pairs)


class HostileMap(ListMap):
    """drops everything right after its n-th operation (lookup hit/miss or store): what a bounded or expiring cache
    shared with other threads may do between any two of the wrapper's own steps"""

    def __init__(self, n):
        super().__init__()
        self.left = n

    def _tick(self):
        self.left -= 1
        if self.left == 0:
            self.pairs[:] = []

    def __getitem__(self, k):
        try:
            return super().__getitem__(k)
        finally:
            self._tick()

    def __setitem__(self, k, v):
        super().__setitem__(k, v)
        self._tick()


def scen_evict_during(a, b, n):
    """an eviction at any point of the wrapper's own sequence of mapping operations costs recomputation, never an exception,
    and never hands a caller the value of other arguments"""
    global LAST_INFO
    devs = []
    cache = HostileMap(n)
    va, vb = V(a), V(b)
    calls = [((va,), []), ((vb,), []), ((va,), []), ((vb,), [('x', va)]), ((va,), [])]
    d, info = _run_calls(calls, cache)
    if d:
        return d
    for i, r in enumerate(info['results']):
        if r[0] != 'ok':
            devs.append('call-raised:' + r[1])
            continue
        val = r[1]
        ia, ik = info['invocations'][val[1]]
        if not _same_sig((ia, list(ik.items())), calls[i]):
            devs.append('received-result-of-different-arguments')
    if not vfw.prelude.tracing():
        LAST_INFO = {'n': n, 'results': repr(info['results'])}
    return sorted(set(devs))


def _run_calls(calls, cache, evictions=None, deco_form='direct'):
    """calls: list of (args tuple, kwargs list of (name, value) in insertion order).
    evictions: optional {call index: 'all' | position in the mapping} applied *before* that call.
    Returns (devs, info)."""
    devs = []
    invocations = []

    async def f(*args, **kwargs):
        n = len(invocations)
        invocations.append((args, kwargs))
        return ('val', n)

    if deco_form == 'direct':
        g = M.threadsafe_async_cache(f) if cache is None else M.threadsafe_async_cache(f, cache=cache)
    else:
        g = M.threadsafe_async_cache(cache=cache)(f)
    results = []

    async def main():
        for i, (args, kw) in enumerate(calls):
            if evictions and i in evictions:
                ev = evictions[i]
                if ev == 'all':
                    cache.pairs[:] = [] if isinstance(cache, ListMap) else cache.clear()
                elif ev is not None and 0 <= ev < len(cache.pairs):
                    del cache.pairs[ev]
            kwargs = {}
            for name, val in kw:
                kwargs[name] = val
            before = len(invocations)
            try:
                r = await g(*args, **kwargs)
            except Exception as e:  # noqa
                results.append(('exc', type(e).__name__, before, len(invocations)))
                continue
            results.append(('ok', r, before, len(invocations)))

    outcome, loop = vloop.run(main)
    if outcome[0] != 'ok':
        return ['calls-did-not-complete:' + outcome[0]], {}
    return devs, {'results': results, 'invocations': invocations}


def _same_sig(c1, c2):
    (a1, k1), (a2, k2) = c1, c2
    if len(a1) != len(a2) or len(k1) != len(k2):
        return False
    for x, y in zip(a1, a2):
        if not (x == y):
            return False
    for n1, v1 in k1:
        found = False
        for n2, v2 in k2:
            if n1 == n2:
                found = True
                if not (v1 == v2):
                    return False
        if not found:
            return False
    return True


def _judge(calls, info, evicted_before=None):
    """evicted_before[i] = set of earlier call indices whose entry was removed before call i."""
    devs = []
    results = info['results']
    owner = {}  # call index -> invocation number expected to serve it
    live = []   # indices of calls whose entry is (still) in the cache: (call idx, invocation no)
    for i, c in enumerate(calls):
        if evicted_before and i in evicted_before:
            live = [(j, n) for (j, n) in live if j not in evicted_before[i]]
        r = results[i]
        if r[0] != 'ok':
            devs.append('call-raised:' + r[1])
            continue
        _, val, before, after = r
        match = None
        for j, n in live:
            if _same_sig(calls[j], c):
                match = n
                break
        if match is not None:
            if after != before:
                devs.append('recomputed-although-cached')
            elif val != ('val', match):
                devs.append('received-result-of-different-arguments')
        else:
            if after != before + 1:
                devs.append('different-arguments-shared-an-entry' if after == before else 'invoked-more-than-once')
            elif val != ('val', before):
                devs.append('wrong-value-returned')
            live.append((i, before))
        # the value returned must have been computed from this call's own arguments
        if val[0] == 'val' and 0 <= val[1] < len(info['invocations']):
            ia, ik = info['invocations'][val[1]]
            if not _same_sig((ia, list(ik.items())), c):
                if 'received-result-of-different-arguments' not in devs and 'different-arguments-shared-an-entry' not in devs:
                    devs.append('received-result-of-different-arguments')
    return devs


NAMES = ('x', 'y', 'z')


class V:
    """Argument value with solver-decided equality: V(a) == V(b) iff a == b for symbolic ints a, b.
    The hash is constant, so real dicts / frozensets inside the repository fall back to ==, which
    forks on the symbolic comparison instead of realising the integers."""
    __slots__ = ('ident',)

    def __init__(self, ident):
        self.ident = ident

    def __eq__(self, o):
        return isinstance(o, V) and self.ident == o.ident

    def __ne__(self, o):
        return not self.__eq__(o)

    def __hash__(self):
        return 1

    def __repr__(self):
        return 'V(%r)' % (self.ident,)


def scen_ints(pa, pb, ka, kb, kwa_names, kwb_names, form='direct', use_listmap=True):
    """F1: two signatures with symbolic int values then a repeat of the first; ListMap cache."""
    global LAST_INFO
    cache = ListMap() if use_listmap else None
    pa, pb, ka, kb = [V(x) for x in pa], [V(x) for x in pb], [V(x) for x in ka], [V(x) for x in kb]
    c1 = (tuple(pa), [(n, ka[i]) for i, n in enumerate(kwa_names)])
    c2 = (tuple(pb), [(n, kb[i]) for i, n in enumerate(kwb_names)])
    c3 = (tuple(pa), [(n, ka[i]) for i, n in reversed(list(enumerate(kwa_names)))])  # same pairs, other order
    calls = [c1, c2, c3, c2]
    devs, info = _run_calls(calls, cache, deco_form=form)
    if devs:
        return devs
    devs = _judge(calls, info)
    # only store: every stored value is reachable through the mapping, and clearing it forgets everything
    if use_listmap and len(cache.pairs) != len({r[1] for r in info['results'] if r[0] == 'ok'}):
        devs.append('entries-not-in-supplied-mapping')
    if not vfw.prelude.tracing():
        LAST_INFO = {'calls': repr(calls), 'results': repr(info['results'])}
    return devs


DOMAIN = (0, 1, 1.0, True, 'a', '1', None, (1, 2), ('a',))


def _val(i):
    v = DOMAIN[i]
    if isinstance(v, tuple):
        return tuple(list(v))  # fresh, equal-but-distinct object
    return v


def scen_domain(i1, i2, as_kw, extra_pos, default_cache):
    """F2: one varying value (positional or keyword) from the mixed-type domain."""
    global LAST_INFO
    cache = None if default_cache else ListMap()
    i1, i2 = vfw.prelude.pick(i1, len(DOMAIN)), vfw.prelude.pick(i2, len(DOMAIN))
    extra_pos = vfw.prelude.pick(extra_pos, 2)

    def mk(i):
        if as_kw:
            return (tuple([0] * extra_pos), [('x', _val(i))])
        return (tuple([0] * extra_pos) + (_val(i),), [])
    calls = [mk(i1), mk(i2), mk(i1)]
    devs, info = _run_calls(calls, cache)
    if devs:
        return devs
    devs = _judge(calls, info)
    if not vfw.prelude.tracing():
        LAST_INFO = {'calls': repr(calls), 'results': repr(info['results'])}
    return devs


def scen_kw_vs_pos(v, w):
    """a value passed positionally and the same value passed by keyword are different signatures
    (they are different *arguments* to the wrapped function); also () vs {} emptiness."""
    global LAST_INFO
    cache = ListMap()
    v, w = V(v), V(w)
    calls = [((v,), []), ((), [('x', v)]), ((), [('y', v)]), ((v,), [('x', w)]), ((), []), ((v,), []),
             # a positional *string* equal to a keyword name must not be confused with that keyword
             (('x', v), []), ((v, 'x', w), []), (('x',), []), ((), [('x', 'x')]), (('x', 'x'), [])]
    devs, info = _run_calls(calls, cache)
    if devs:
        return devs
    devs = _judge(calls, info)
    if not vfw.prelude.tracing():
        LAST_INFO = {'calls': repr(calls), 'results': repr(info['results'])}
    return devs


def scen_evict(a, b, ev1, ev2):
    """F3: a, b computed; entry number ev1 (or none) evicted; a, b again; ev2; a, b again.
    Exactly one recomputation per evicted entry, none otherwise."""
    global LAST_INFO
    cache = ListMap()
    a, b = V(a), V(b)
    ev1, ev2 = vfw.prelude.pick(ev1 + 1, 3) - 1, vfw.prelude.pick(ev2 + 1, 4) - 1
    ca, cb = ((a,), []), ((b,), [('x', a)])
    calls = [ca, cb, ca, cb, ca, cb]
    evs = {2: ev1 if ev1 >= 0 else None, 4: ('all' if ev2 == 2 else (ev2 if ev2 >= 0 else None))}
    devs, info = _run_calls(calls, cache, evictions=evs)
    if devs:
        return devs
    # which earlier calls lose their entry: mapping positions follow insertion order (a first, b second)
    def victims(ev, order):
        if ev == 'all':
            return set(order)
        if ev is None or ev >= len(order):
            return set()
        return {order[ev]}
    order1 = [0, 1]
    v1 = victims(evs[2], order1)
    # after calls 2,3 the mapping holds survivors in old order followed by recomputed ones
    order2 = [j for j in order1 if j not in v1] + [j + 2 for j in order1 if j in v1]
    v2 = victims(evs[4], order2)
    eb = {2: v1, 4: v2}
    devs = _judge(calls, info, evicted_before=eb)
    n_expected = 2 + len(v1) + len(v2)
    if len(info['invocations']) != n_expected and not devs:
        devs.append('eviction-did-not-cause-exactly-one-recomputation')
    if not vfw.prelude.tracing():
        LAST_INFO = {'calls': repr(calls), 'evictions': repr(evs), 'results': repr(info['results'])}
    return devs


def twin_share(pa, pb):
    """Reachability: 'two calls shared an entry' never happens."""
    devs = scen_ints(pa, pb, [1], [1], ('x',), ('x',))
    if devs:
        return []
    return ['reached'] if list(pa) == list(pb) else []


def cells(prop, tier):
    out = []
    q = 'quick'
    shapes = [
        (1, 1, (), ()), (2, 2, (), ()), (1, 2, (), ()), (0, 0, ('x',), ('x',)), (0, 0, ('x',), ('y',)),
        (0, 0, ('x', 'y'), ('y', 'x')), (1, 1, ('x',), ('x',)), (1, 1, ('x', 'y'), ('y', 'x')), (0, 0, ('x', 'y'), ('x',)),
        (2, 2, ('z',), ('z',)), (3, 3, (), ()), (3, 3, ('x', 'y', 'z'), ('z', 'y', 'x')), (2, 2, ('x', 'y', 'z'), ('y', 'z', 'x')),
        (0, 0, ('x', 'y', 'z'), ('z', 'x', 'y')), (3, 2, ('x',), ('x',)), (2, 2, ('x', 'y'), ('x', 'z')),
    ]
    for (na, nb, kan, kbn) in shapes:
        out.append(Cell(
            name='ints_p%d%d_%s_%s' % (na, nb, ''.join(kan) or 'none', ''.join(kbn) or 'none'),
            sig='pa: List[int], pb: List[int], ka: List[int], kb: List[int]',
            pre=['len(pa) == %d and len(pb) == %d and len(ka) == %d and len(kb) == %d' % (na, nb, len(kan), len(kbn))],
            body='H.scen_ints(pa, pb, ka, kb, %r, %r)' % (kan, kbn), tier=q, timeout=170, family='ints'))
    for (na, nb, kan, kbn) in [(1, 1, (), ()), (1, 1, ('x', 'y'), ('y', 'x')), (2, 2, ('z',), ('z',))]:
        out.append(Cell(
            name='ints_dict_p%d%d_%s_%s' % (na, nb, ''.join(kan) or 'none', ''.join(kbn) or 'none'),
            sig='pa: List[int], pb: List[int], ka: List[int], kb: List[int]',
            pre=['len(pa) == %d and len(pb) == %d and len(ka) == %d and len(kb) == %d' % (na, nb, len(kan), len(kbn))],
            body="H.scen_ints(pa, pb, ka, kb, %r, %r, 'direct', False)" % (kan, kbn), tier=q, timeout=170, family='ints'))
    out.append(Cell(name='ints_options_form', sig='pa: List[int], pb: List[int], ka: List[int], kb: List[int]',
                    pre=['len(pa) == 1 and len(pb) == 1 and len(ka) == 1 and len(kb) == 1'],
                    body="H.scen_ints(pa, pb, ka, kb, ('x',), ('x',), 'options')", tier=q, timeout=170, family='ints'))
    nd = len(DOMAIN)
    for as_kw in (False, True):
        for dc in (True, False):
            out.append(Cell(name='domain_%s_%s' % ('kw' if as_kw else 'pos', 'dict' if dc else 'listmap'),
                            sig='i1: int, i2: int, extra_pos: int',
                            pre=['0 <= i1 <= %d and 0 <= i2 <= %d and 0 <= extra_pos <= 1' % (nd - 1, nd - 1)],
                            body='H.scen_domain(i1, i2, %r, extra_pos, %r)' % (as_kw, dc), tier=q, timeout=170, family='domain'))
    out.append(Cell(name='kw_vs_pos', sig='v: int, w: int', pre=['True'], body='H.scen_kw_vs_pos(v, w)', tier=q, timeout=120, family='ints'))
    out.append(Cell(name='evict', sig='a: int, b: int, ev1: int, ev2: int', pre=['-1 <= ev1 <= 1 and -1 <= ev2 <= 2'],
                    body='H.scen_evict(a, b, ev1, ev2)', tier=q, timeout=170, family='evict'))
    out.append(Cell(name='evict_during', sig='a: int, b: int, n: int', pre=['1 <= n <= 14'], body='H.scen_evict_during(a, b, n)',
                    tier=q, timeout=170, family='evict'))
    out.append(Cell(name='twin_share', sig='pa: List[int], pb: List[int]', pre=['len(pa) == 2 and len(pb) == 2'],
                    body='H.twin_share(pa, pb)', expect='refute', timeout=90, family='ints'))
    if tier == 'thorough':
        for (na, nb, kan, kbn) in [(4, 4, (), ()), (4, 4, ('x', 'y', 'z'), ('z', 'y', 'x')), (3, 3, ('x', 'y', 'z'), ('y', 'z', 'x')),
                                   (4, 3, ('x', 'y'), ('y', 'x')), (1, 1, ('x', 'y', 'z'), ('x', 'y')), (0, 4, (), ('x',))]:
            out.append(Cell(
                name='ints_p%d%d_%s_%s' % (na, nb, ''.join(kan) or 'none', ''.join(kbn) or 'none'),
                sig='pa: List[int], pb: List[int], ka: List[int], kb: List[int]',
                pre=['len(pa) == %d and len(pb) == %d and len(ka) == %d and len(kb) == %d' % (na, nb, len(kan), len(kbn))],
                body='H.scen_ints(pa, pb, ka, kb, %r, %r)' % (kan, kbn), tier='thorough', timeout=900, family='ints'))
    return out


META = {'C14': {
    'explanation': 'threadsafe_async_cache from the current /repo/aiuti/asyncio.py is driven on the virtual-time loop with sequences '
                   'of calls whose signatures are built from symbolic values. With a == -based MutableMapping as the supplied cache, '
                   'positional and keyword values are symbolic integers and z3 decides all equal/unequal patterns (over all ints); '
                   'with the default dict cache, values are symbolic indices into a mixed-type domain (0, 1, 1.0, True, strings, None, '
                   'fresh equal tuples) - that family is an enumeration driven by the solver. Oracle: invocation counts per expected key '
                   'class (args equal in order, kwargs equal as name/value sets), returned values tagged with the producing invocation, '
                   'eviction sequences on the supplied mapping.',
    'functions': [('aiuti/asyncio.py', 'threadsafe_async_cache')],
    'bounds': 'quick: 4 calls per scenario (sig A, sig B, A with keyword order reversed, B), 0..3 positional and 0..3 keyword '
              'arguments over names x,y,z with all integer values; 9-value mixed-type domain for one varying argument; eviction: two '
              'entries, two eviction steps from {none, entry 0, entry 1, all}; positional strings equal to keyword names; thorough: up to 4 positional and 3 keyword arguments',
    'outside': 'unhashable arguments; concurrency (C01/C05/C06); more than 3 arguments; caches that do not retain entries',
    'assumptions': ['the supplied mapping compares keys with == (dict semantics); for the default dict, hashing of the real key objects '
                    'is executed natively after the engine realises them'],
}}


def conformance(prop):
    assert scen_ints([1], [1], [], [], (), ()) == []
    assert scen_ints([1, 2], [1, 3], [5, 6], [6, 5], ('x', 'y'), ('y', 'x')) == []
    for i in range(len(DOMAIN)):
        for j in range(len(DOMAIN)):
            assert scen_domain(i, j, False, 0, True) == [], (i, j, LAST_INFO)
            assert scen_domain(i, j, True, 1, False) == [], (i, j, LAST_INFO)
    assert scen_kw_vs_pos(1, 2) == []
    for e1 in (-1, 0, 1):
        for e2 in (-1, 0, 1, 2):
            assert scen_evict(1, 2, e1, e2) == [], (e1, e2, LAST_INFO)
