"""C02, C12, C13 - FileLock (Mode T, synchronous code in awaitable form, kernel/flock model).

The methods of BaseFileLock/UnixFileLock are loaded from /repo's current source through the P2/P3
passes: a scheduling point before every statement, calls dispatched through _vt.call, `with` ->
`async with`.  `os`, `fcntl`, `time`, `threading` inside the loaded module are the stubs of
vfw/vt/stubs.py (flock(2) model, virtual clock, Lock/RLock with owner checks).

C02  2-3 logical threads x 1-2 objects, symbolic acquisition styles, constructor timeout, reentrancy,
     critical-section length, thread priorities and pre-emption positions; occupancy of the
     harness-owned critical section never exceeds 1.
C12  symbolic operation sequences over 2 objects x 2 threads against an executable reference model
     (observables only), fault injection into open/flock/unlock/close, virtual-time bounds.
C13  a victim process is killed at a symbolic scheduling point (no finally blocks run, the kernel
     model closes its descriptors); survivors keep mutual exclusion and a fresh process acquires.
"""
import vfw.prelude  # noqa: F401
from vfw.prelude import pick, tracing, refuel, StepBound
from vfw.cells import Cell
from vfw import loader
from vfw.vt import world as vt
from vfw.vt import transform, stubs

LAST_INFO = None
RAW = None


def _want(qual, node):
    return '.' in qual and node.name not in ('__init__', '__repr__')


_TR = transform.Asyncify(_want)
FL = loader.load('aiuti/filelock.py', 'aiuti_filelock_modeT', extra_passes=[_TR], inject={'_vt': vt})
try:
    # garbage collection of a lock object is an explicit scenario step (`_vf_del`), never something the interpreter does mid-path
    FL.BaseFileLock._vf_del = FL.BaseFileLock.__del__
    FL.BaseFileLock.__del__ = lambda self: None
except Exception:  # noqa
    pass
LockClass = getattr(FL, 'UnixFileLock', None) or FL.FileLock
PATH = '/lock/file.lock'


class Env:
    def __init__(self, prio=None, preempts=(), overshoot=0, trace=False, max_steps=4000):
        refuel()
        self.w = vt.World(prio=prio, preempts=preempts, trace=trace, max_steps=max_steps)
        self.k = stubs.Kernel(self.w)
        self.time = stubs.KTime(self.w, overshoot)
        self.threading = stubs.KThreading(self.w)
        FL.os = stubs.KOS(self.k)
        FL.fcntl = stubs.KFcntl(self.k)
        FL.time = self.time
        FL.threading = self.threading
        FL.open = stubs.model_open
        self.w.on_kill = self.k.kill

    def lock(self, timeout=-1, reentrant=False, path=PATH):
        return LockClass(path, timeout=timeout, reentrant=reentrant)


# =================================================================================== C02
STYLES = ('acquire', 'with', 'acquire_ctx', 'nonblocking', 'timed', 'nested', 'drop')


def scen_c02(styles, ctor_timeout, reentrant, nobj, csdur, prio_idx, p1, q1, p2=0, q2=0, rounds=1, t_arg=1, objmap=None, fault_unlock=-1, delays=None):
    """len(styles) = threads * rounds (thread-major)."""
    global LAST_INFO, RAW
    nthreads = len(styles) // rounds
    prio = vt.permutation(nthreads, pick(prio_idx, [1, 1, 2, 6, 24][nthreads]))
    env = Env(prio=prio, preempts=[(p1, q1), (p2, q2)], trace=not tracing())
    W = env.w
    nobj = pick(nobj - 1, 3) + 1
    locks = [env.lock(ctor_timeout, reentrant) for _ in range(nobj)]
    if fault_unlock >= 0:
        env.k.faults[('unlock', fault_unlock)] = 5     # the OS refuses one unlock call (EIO)
    st = {'occ': 0, 'overlap': False, 'entered': 0, 'inside': {}, 'errors': []}

    async def cs(i):
        st['occ'] += 1
        st['entered'] += 1
        st['inside'][i] = True
        if st['occ'] > 1:
            st['overlap'] = True
        await vt.sp('cs-enter')
        if csdur > 0:
            await vt.Tok('sleep', W.now + csdur)
        await vt.sp('cs-leave')
        st['inside'][i] = False
        st['occ'] -= 1

    async def worker(i):
        l = locks[objmap[i] if objmap else i % nobj]
        if delays and delays[i] > 0:
            await vt.Tok('sleep', W.now + delays[i])
        for r in range(rounds):
            mode = STYLES[pick(styles[i * rounds + r], len(STYLES))]
            try:
                if mode == 'acquire':
                    if await vt.call(l.acquire):
                        await cs(i)
                        await vt.call(l.release)
                elif mode == 'with':
                    async with vt.cm(l):
                        await cs(i)
                elif mode == 'acquire_ctx':
                    try:
                        async with vt.cm(l.acquire_ctx(timeout=t_arg)):
                            await cs(i)
                    except TimeoutError:
                        pass
                elif mode == 'drop':
                    # the holder object is garbage-collected while holding (its __del__ runs) instead of being released
                    if await vt.call(l.acquire):
                        await cs(i)
                        await vt.call(l._vf_del)
                elif mode == 'nested':
                    # the critical section spans the outer block; a nested re-entry happens in the middle of it
                    async with vt.cm(l):
                        st['occ'] += 1
                        st['entered'] += 1
                        if st['occ'] > 1:
                            st['overlap'] = True
                        if csdur > 0:
                            await vt.Tok('sleep', W.now + csdur)
                        async with vt.cm(l):
                            await vt.sp('nested')
                        if st['occ'] > 1:
                            st['overlap'] = True
                        await vt.sp('cs-tail')
                        if csdur > 0:
                            await vt.Tok('sleep', W.now + csdur)
                        if st['occ'] > 1:
                            st['overlap'] = True
                        st['occ'] -= 1
                elif mode == 'nonblocking':
                    if await vt.call(l.acquire, False):
                        await cs(i)
                        await vt.call(l.release)
                else:
                    if await vt.call(l.acquire, True, t_arg):
                        await cs(i)
                        await vt.call(l.release)
            except TimeoutError:
                pass
    for i in range(nthreads):
        W.spawn('T%d' % i, worker(i), pid=i % nobj)
    r = W.run()
    W.abandon_all()
    devs = []
    if st['overlap']:
        devs.append('two-holders-inside-critical-section')
    for t in W.threads:
        if t.exc is not None:
            if isinstance(t.exc, StepBound):
                devs.append('busy-loop-without-suspension')
            else:
                devs.append('contender-raised:' + type(t.exc).__name__)
    if r == 'stepbound':
        devs.append('schedule-does-not-terminate')
    RAW = {'result': r, 'entered': st['entered'], 'steps': W.steps, 'opportunities': W.opportunities}
    if not tracing():
        LAST_INFO = {'styles': [STYLES[s] for s in styles], 'ctor_timeout': ctor_timeout, 'reentrant': bool(reentrant), 'objects': nobj,
                     'csdur': csdur, 'priority': prio, 'preempt': [(p1, q1), (p2, q2)], 'result': r, 'entered': st['entered'],
                     'trace_tail': W.trace[-60:] if W.trace else None}
    return sorted(set(devs))


def twin_c02(styles, p1):
    """Reachability: 'a pre-emption happened and both contenders still got inside' never happens."""
    d = scen_c02(styles, -1, False, 1, 0, 0, p1, 0)
    if d:
        return []
    return ['reached'] if RAW['entered'] == 2 and p1 >= 1 and RAW['opportunities'] >= p1 else []


# =================================================================================== C12
OPS = ('acq_nb', 'acq_timed', 'acq_default', 'with_enter', 'with_exit', 'ctx_enter', 'ctx_exit', 'release', 'release_force')
FAULT_CALLS = ('open', 'flock', 'unlock', 'close')


class Ref:
    """executable reference model: per object owner/depth, one flock holder for the path"""

    def __init__(self, n, reentrant, timeouts):
        self.depth = [0] * n
        self.owner = [None] * n
        self.re = reentrant
        self.tmo = timeouts
        self.holder = None

    def can(self, o, t):
        if self.depth[o] > 0:
            return bool(self.re[o]) and self.owner[o] == t
        return self.holder is None

    def take(self, o, t):
        self.depth[o] += 1
        self.owner[o] = t
        self.holder = o

    def release(self, o, force=False):
        if self.depth[o] == 0:
            return
        self.depth[o] = 0 if force else self.depth[o] - 1
        if self.depth[o] == 0:
            self.owner[o] = None
            self.holder = None


def scen_c12(ops, reentrant, ctor_timeouts, t_arg, poll, overshoot, fault_call=-1, fault_idx=0):
    """ops: list of (thread, object, kind index). Sequential execution (each op runs to completion;
    an op that would block forever ends the scenario - blocking belongs to scenario B)."""
    global LAST_INFO, RAW
    env = Env(overshoot=overshoot)
    W, K = env.w, env.k
    nobj = 2
    re = [bool(reentrant[0]), bool(reentrant[1])]
    locks = [env.lock(ctor_timeouts[i], re[i]) for i in range(nobj)]
    ref = Ref(nobj, re, ctor_timeouts)
    faulted = fault_call >= 0
    if faulted:
        K.faults[(FAULT_CALLS[pick(fault_call, 4)], fault_idx)] = 5
    threads = [vt.LThread('T0', None, W, 0), vt.LThread('T1', None, W, 0)]
    W.threads.extend(threads)
    ctxs = {}       # (thread, obj) -> list of entered acquire_ctx managers
    devs = []
    log = []
    fault_hit = [False]

    def run(coro, t):
        return vt.run_sync(coro, W, threads[t])

    def held_truth(o):
        """what the kernel model says: object o's descriptor holds the flock"""
        fd = getattr(locks[o], '_lock_file_fd', None)
        if fd is None or fd not in K.fds:
            return False
        od = K.fds[fd]
        return K.lock_holder.get(od.inode) is od

    blocked = False
    for (t, o, kind) in ops:
        t = pick(t, 2)
        o = pick(o, 2)
        op = OPS[pick(kind, len(OPS))]
        L = locks[o]
        t0 = W.now
        ncalls0 = dict(K.calls)
        if op in ('acq_nb', 'acq_timed', 'acq_default', 'with_enter', 'ctx_enter'):
            if op == 'acq_nb':
                eff_t, res = -2, run(vt.call(L.acquire, False, None, poll), t)
            elif op == 'acq_timed':
                eff_t, res = t_arg, run(vt.call(L.acquire, True, t_arg, poll), t)
            elif op == 'acq_default':
                eff_t, res = ctor_timeouts[o], run(vt.call(L.acquire, True, None, poll), t)
            elif op == 'with_enter':
                eff_t, res = ctor_timeouts[o], run(vt.call(L.__enter__), t)
            else:
                cmo = L.acquire_ctx(True, t_arg, poll)
                eff_t, res = t_arg, run(cmo.__aenter__(), t)
            if res[0] == 'would-block':
                if eff_t != -1:     # non-blocking (-2) or timed (>= 0) acquisition must come back
                    devs.append('timed-or-nonblocking-acquire-blocks-forever')
                blocked = True
                break
            elapsed = W.now - t0
            fault_now = faulted and K.calls != ncalls0 and any(
                (c, i) in K.faults for c in FAULT_CALLS for i in range(ncalls0[c], K.calls[c]))
            expect = ref.can(o, t)
            # -- what happened
            if res[0] == 'exc':
                e = res[1]
                if isinstance(e, StepBound):
                    devs.append('busy-loop-without-suspension')
                    break
                if op in ('with_enter', 'ctx_enter') and isinstance(e, TimeoutError):
                    got = False
                elif fault_now and isinstance(e, OSError):
                    got = False
                else:
                    devs.append('acquire-raised:' + type(e).__name__)
                    break
            else:
                got = True if op in ('with_enter', 'ctx_enter') else res[1]
                if got is not True and got is not False:
                    devs.append('acquire-returned-non-bool')
                    break
            log.append((t, o, op, got, elapsed))
            if got:
                if not fault_now and not expect:
                    devs.append('acquire-reported-success-while-lock-unavailable')
                ref.take(o, t)
                if op == 'ctx_enter':
                    ctxs.setdefault((t, o), []).append(cmo)
            else:
                if not fault_now and expect:
                    devs.append('acquire-failed-although-lock-available')
                if eff_t == -1 and not fault_now:
                    devs.append('blocking-acquire-returned-false')
            # -- truthfulness against the kernel model
            if ref.depth[o] > 0 and not held_truth(o):
                devs.append('reported-held-but-os-lock-not-held')
            # -- timing
            if op == 'acq_nb' and elapsed != 0:
                devs.append('non-blocking-acquire-waited')
            if eff_t >= 0 and not fault_now:
                if got and elapsed != 0:
                    devs.append('successful-uncontended-acquire-waited')
                if not got and elapsed > eff_t + poll + overshoot:
                    devs.append('timed-acquire-exceeded-timeout-plus-poll')
        elif op in ('release', 'release_force', 'with_exit', 'ctx_exit'):
            if ref.depth[o] > 0 and ref.owner[o] != t:
                continue   # releasing another thread's lock: outside the contract
            if op == 'ctx_exit':
                stack = ctxs.get((t, o))
                if not stack:
                    continue
                res = run(stack.pop().__aexit__(None, None, None), t)
                force = False
            elif op == 'with_exit':
                res = run(vt.call(L.__exit__, None, None, None), t)
                force = False
            else:
                force = op == 'release_force'
                res = run(vt.call(L.release, force) if force else vt.call(L.release), t)
            if res[0] == 'would-block':
                blocked = True
                break
            if res[0] == 'exc':
                if isinstance(res[1], StepBound):
                    devs.append('busy-loop-without-suspension')
                else:
                    devs.append('release-raised:' + type(res[1]).__name__)
                break
            if W.now != t0:
                devs.append('release-waited')
            ref.release(o, force)
            log.append((t, o, op, None, 0))
        # -- observables after every op
        for i in range(nobj):
            il = locks[i].is_locked
            if bool(il) != (ref.depth[i] > 0):
                devs.append('is_locked-wrong')
        if not (faulted and FAULT_CALLS[pick(fault_call, 4)] == 'close'):
            if len(K.open_fds()) != sum(1 for d in ref.depth if d > 0):
                devs.append('descriptor-leaked' if len(K.open_fds()) > sum(1 for d in ref.depth if d > 0) else 'descriptor-missing')
        if devs:
            break
    # -- final probes (only when the sequence ran through): every party can acquire iff the model says free
    close_refused = faulted and FAULT_CALLS[pick(fault_call, 4)] == 'close' and K.calls['close'] > fault_idx
    K.faults.clear()    # faults belong to the sequence, not to the probes
    if close_refused:
        pass            # the kernel refused to close a descriptor: whatever it still holds is not the library's residue
    elif not devs and not blocked:
        for i in range(nobj):
            for t in (0, 1):
                exp = ref.can(i, t)
                res = run(vt.call(locks[i].acquire, False), t)
                if res[0] != 'ok':
                    devs.append('probe-raised')
                    break
                if bool(res[1]) != exp:
                    devs.append('lock-not-acquirable-after-release' if exp else 'probe-acquired-held-lock')
                    break
                if res[1]:
                    run(vt.call(locks[i].release), t)
            if devs:
                break
        if not devs:
            fresh = env.lock(-1, False)
            exp = ref.holder is None
            res = run(vt.call(fresh.acquire, False), 0)
            if res[0] != 'ok' or bool(res[1]) != exp:
                devs.append('fresh-object-cannot-acquire-free-lock' if exp else 'fresh-object-acquired-held-lock')
            elif res[1]:
                run(vt.call(fresh.release), 0)
    W.threads[:] = []
    RAW = {'log': log, 'blocked': blocked}
    if not tracing():
        LAST_INFO = {'ops': [(pick(t, 2), pick(o, 2), OPS[pick(k, len(OPS))]) for (t, o, k) in ops], 'reentrant': re,
                     'ctor_timeouts': list(ctor_timeouts), 't_arg': t_arg, 'poll': poll, 'overshoot': overshoot,
                     'fault': (FAULT_CALLS[fault_call], fault_idx) if faulted else None, 'log': log, 'blocked': blocked,
                     'model': {'depth': ref.depth, 'owner': ref.owner, 'holder': ref.holder}, 'open_fds': K.open_fds()}
    return sorted(set(devs))


def scen_c12_seq(tt, oo, kk, reentrant, ctor_timeouts, t_arg, poll, overshoot, fault_call=-1, fault_idx=0):
    return scen_c12(list(zip(tt, oo, kk)), reentrant, ctor_timeouts, t_arg, poll, overshoot, fault_call, fault_idx)


def scen_c12_blocking(style, reentrant, hold, prio_idx, p1):
    """scenario B: a blocking acquire with a second thread that releases after `hold`; both objects / one object."""
    global LAST_INFO
    prio = vt.permutation(2, pick(prio_idx, 2))
    env = Env(prio=prio, preempts=[(p1, 0)])
    W = env.w
    same = pick(style, 2) == 0
    a = env.lock(-1, reentrant)
    b = a if same else env.lock(-1, reentrant)
    out = {}

    async def holder():
        out['h'] = await vt.call(a.acquire)
        await vt.Tok('sleep', W.now + hold)
        await vt.call(a.release)

    async def waiter():
        await vt.Tok('sleep', W.now + 1)
        t0 = W.now
        out['w'] = await vt.call(b.acquire)
        out['waited'] = W.now - t0
        out['h_released'] = not a.is_locked or same
        await vt.call(b.release)
    W.spawn('H', holder())
    W.spawn('W', waiter())
    r = W.run()
    W.abandon_all()
    devs = []
    if r != 'done':
        devs.append('blocking-acquire-never-returns' if r == 'deadlock' else 'schedule-does-not-terminate')
    elif out.get('w') is not True or out.get('h') is not True:
        devs.append('blocking-acquire-returned-false')
    if any(t.exc is not None for t in W.threads):
        devs.append('contender-raised')
    if not tracing():
        LAST_INFO = {'same_object': same, 'reentrant': bool(reentrant), 'hold': hold, 'result': r, 'out': out}
    return devs


def twin_c12(tt, oo, kk):
    """Reachability: 'a reentrant lock was held at depth 2 and then fully released' never happens."""
    d = scen_c12(list(zip(tt, oo, kk)), [True, True], [0, 0], 1, 1, 0)
    if d:
        return []
    depth = 0
    reached2 = False
    for (t, o, op, got, _) in RAW['log']:
        if o == 0 and got:
            depth += 1
            reached2 = reached2 or depth >= 2
        if o == 0 and op in ('release',):
            depth = max(0, depth - 1)
    return ['reached'] if reached2 and depth == 0 else []


# =================================================================================== C13
def scen_c13(program, kill_after, nsurv, csdur, prio_idx, reentrant, ctor_timeout):
    """victim process (pid 1) runs `program`, is killed after `kill_after` of its scheduling points;
    `nsurv` survivor processes cycle acquire / critical section / release; afterwards a fresh process
    must be able to acquire, and survivors never overlap."""
    global LAST_INFO, RAW
    nsurv = pick(nsurv, 3)
    program = pick(program, 4)
    nth = 2 + nsurv
    prio = vt.permutation(nth, pick(prio_idx, [1, 1, 2, 6, 24][nth]))
    env = Env(prio=prio, trace=not tracing())
    W, K = env.w, env.k
    st = {'occ': 0, 'overlap': False, 'inside': set(), 'victim_in': False}
    vlock = env.lock(ctor_timeout, reentrant)

    async def cs(who):
        st['occ'] += 1
        st['inside'].add(who)
        if st['occ'] > 1:
            st['overlap'] = True
        await vt.sp('cs')
        if csdur > 0:
            await vt.Tok('sleep', W.now + csdur)
        st['inside'].discard(who)
        st['occ'] -= 1

    async def victim():
        if program == 0:          # blocking acquire, hold, release
            await vt.call(vlock.acquire)
            await cs('V')
            await vt.call(vlock.release)
        elif program == 1:        # timed acquire via context manager
            try:
                async with vt.cm(vlock.acquire_ctx(timeout=2)):
                    await cs('V')
            except TimeoutError:
                pass
        elif program == 2:        # nested (reentrant) or repeated
            async with vt.cm(vlock):
                if reentrant:
                    async with vt.cm(vlock):
                        await cs('V')
                else:
                    await cs('V')
            async with vt.cm(vlock):
                await vt.sp('again')
        else:                     # acquire, forced release, acquire again
            await vt.call(vlock.acquire)
            await vt.call(vlock.release, True)
            await vt.call(vlock.acquire, True, 3)
            await vt.sp('hold')
        await vt.Tok('sleep', W.now + 50)
        K.kill(1)   # normal process exit: the kernel closes whatever is still open

    def on_kill(pid):
        K.kill(pid)
        if 'V' in st['inside']:
            st['inside'].discard('V')
            st['occ'] -= 1
    W.on_kill = on_kill
    W.kill_at = {1: kill_after}
    W.spawn('V', victim(), pid=1)
    done = {}

    async def survivor(i):
        l = env.lock(-1, False)
        for _ in range(2):
            if await vt.call(l.acquire):
                await cs('S%d' % i)
                await vt.call(l.release)
        done[i] = True
    for i in range(nsurv):
        W.spawn('S%d' % i, survivor(i), pid=2 + i)
    fresh = {}

    async def fresh_proc():
        await vt.Tok('blocked', lambda: any(t.killed for t in W.threads) or all(t.done for t in W.threads if t.name == 'V'))
        l = env.lock(-1, False)
        t0 = W.now
        fresh['ok'] = await vt.call(l.acquire, True, 40)
        fresh['waited'] = W.now - t0
        if fresh['ok']:
            await cs('F')
            await vt.call(l.release)
    W.spawn('F', fresh_proc(), pid=9)
    r = W.run()
    killed = any(t.killed for t in W.threads)
    W.abandon_all()
    devs = []
    if st['overlap']:
        devs.append('two-holders-inside-critical-section')
    if r == 'deadlock' or (r == 'done' and fresh.get('ok') is not True):
        devs.append('lock-stuck-after-holder-died' if killed else 'lock-stuck')
    elif r == 'stepbound':
        devs.append('schedule-does-not-terminate')
    elif fresh.get('waited', 0) > (2 * nsurv + 1) * (csdur + 1) + 2:
        devs.append('fresh-process-not-prompt')
    for t in W.threads:
        if t.exc is not None and t.name != 'V':
            devs.append('survivor-raised:' + type(t.exc).__name__)
    RAW = {'killed': killed, 'result': r, 'fresh': fresh}
    if not tracing():
        LAST_INFO = {'program': program, 'kill_after': kill_after, 'survivors': nsurv, 'csdur': csdur, 'priority': prio,
                     'reentrant': bool(reentrant), 'ctor_timeout': ctor_timeout, 'result': r, 'killed': killed, 'fresh': fresh,
                     'trace_tail': W.trace[-50:] if W.trace else None}
    return sorted(set(devs))


def scen_c13_waiter(kill_after, hold, poll, prio_idx):
    """a contender is already polling with a timed acquire (poll interval `poll`) while the holder keeps the lock for `hold` ticks and is
    then killed: the contender gets the lock within one poll interval of the death (promptly), not after a back-off"""
    global LAST_INFO, RAW
    prio = vt.permutation(2, pick(prio_idx, 2))
    env = Env(prio=prio, trace=not tracing())
    W, K = env.w, env.k
    st = {'dead_at': None, 'got_at': None, 'got': None, 'holding': False}
    vlock = env.lock(-1, False)

    async def victim():
        await vt.call(vlock.acquire)
        st['holding'] = True
        await vt.Tok('sleep', W.now + hold)
        await vt.sp('after-hold')
        await vt.call(vlock.release)
        st['holding'] = False
        await vt.Tok('sleep', W.now + 200)

    def on_kill(pid):
        K.kill(pid)
        st['dead_at'] = W.now
        st['died_holding'] = st['holding']
    W.on_kill = on_kill
    W.kill_at = {1: kill_after}
    W.spawn('V', victim(), pid=1)

    async def waiter():
        await vt.Tok('blocked', lambda: st['holding'] or st['dead_at'] is not None)
        l = env.lock(-1, False)
        st['started_at'] = W.now
        st['got'] = await vt.call(l.acquire, True, 150, poll)
        st['got_at'] = W.now
        if st['got']:
            await vt.call(l.release)
    W.spawn('S', waiter(), pid=2)
    r = W.run()
    W.abandon_all()
    devs = []
    if r == 'stepbound':
        devs.append('schedule-does-not-terminate')
    elif st['dead_at'] is not None and st.get('died_holding'):
        if st['got'] is not True:
            devs.append('lock-stuck-after-holder-died')
        elif st['got_at'] - max(st['dead_at'], st.get('started_at', 0)) > poll + 1:
            devs.append('waiting-contender-not-prompt-after-holder-died')
    for t in W.threads:
        if t.exc is not None and t.name != 'V':
            devs.append('survivor-raised:' + type(t.exc).__name__)
    RAW = dict(st)
    if not tracing():
        LAST_INFO = {'kill_after': kill_after, 'hold': hold, 'poll': poll, 'result': r, 'state': dict(st)}
    return sorted(set(devs))


def twin_c13(kill_after):
    """Reachability: 'the victim died while holding the OS lock' never happens."""
    d = scen_c13(0, kill_after, 1, 1, 0, False, -1)
    if d:
        return []
    return ['reached'] if RAW['killed'] and RAW['fresh'].get('waited', 0) >= 0 and kill_after >= 8 else []


# =================================================================================== cells
def cells(prop, tier):
    out = []
    q = 'quick'
    if prop == 'C02':
        combos = [(False, -1, 1), (False, -1, 2), (False, 0, 1), (False, 0, 2), (False, 2, 1), (False, 2, 2), (True, -1, 1), (True, 0, 1)]
        for (re, tmo, nobj) in combos:
            for s0 in range(5):
                isq = tmo != 2 and not (re and tmo == 0) and not ((re, tmo, nobj) == (False, 0, 2) and s0 in (0, 3, 4))
                out.append(Cell(
                    name='c02_2t_re%d_tmo%s_obj%d_%s' % (re, str(tmo).replace('-', 'm'), nobj, STYLES[s0]),
                    sig='s1: int, prio_idx: int, p1: int',
                    pre=['0 <= s1 <= 4 and 0 <= prio_idx <= 1 and 0 <= p1 <= 90'],
                    body='H.scen_c02([%d, s1], %d, %r, %d, 1, prio_idx, p1, 0)' % (s0, tmo, re, nobj),
                    tier=q if isq else 'thorough', timeout=600, family='c02', weight=3))
        # three contenders, one shared object + one separate object, a failed timed acquisition in the middle
        for pr in range(6):
            out.append(Cell(name='c02_3t_ctx_prio%d' % pr, sig='s2: int, p1: int, q1: int',
                            pre=['0 <= s2 <= 1 and 0 <= p1 <= 130 and 0 <= q1 <= 1'],
                            body='H.scen_c02([0, 2, s2], -1, False, 2, 2, %d, p1, q1, 0, 0, 1, 1, (0, 0, 1))' % pr,
                            tier=q if pr in (0, 2, 4) else 'thorough', timeout=900, family='c02', weight=4))
            out.append(Cell(name='c02_3t_ctx_full_prio%d' % pr, sig='s0: int, s2: int, p1: int, q1: int',
                            pre=['0 <= s0 <= 1 and 0 <= s2 <= 4 and 0 <= p1 <= 130 and 0 <= q1 <= 1'],
                            body='H.scen_c02([s0, 2, s2], -1, False, 2, 2, %d, p1, q1, 0, 0, 1, 1, (0, 0, 1))' % pr,
                            tier='thorough', timeout=3000, family='c02', weight=4))
            # reentrant nesting inside the critical section, two threads on one object + a third on its own object
            out.append(Cell(name='c02_3t_nested_prio%d' % pr, sig='s2: int, csdur: int, p1: int, q1: int',
                            pre=['0 <= s2 <= 1 and 1 <= csdur <= 2 and 0 <= p1 <= 170 and 0 <= q1 <= 1'],
                            body='H.scen_c02([5, 5, s2], -1, True, 2, csdur, %d, p1, q1, 0, 0, 1, 1, (0, 0, 1))' % pr,
                            tier='thorough', timeout=3000, family='c02', weight=4))
        # one OS unlock call fails while a thread goes through two rounds on its object and another object contends
        for st in ((0, 0, 0, 0), (1, 0, 1, 0)):
            for fault in (0, 1):
                isq = st == (0, 0, 0, 0) or fault == 0
                out.append(Cell(name='c02_unlock_fault_%s_f%d' % (''.join(map(str, st)), fault), sig='prio_idx: int, p1: int',
                                pre=['0 <= prio_idx <= 1 and 0 <= p1 <= 140'],
                                body='H.scen_c02(%r, -1, False, 2, 1, prio_idx, p1, 0, 0, 0, 2, 1, (0, 1), %d)' % (list(st), fault),
                                tier=q if isq else 'thorough', timeout=900, family='c02', weight=5))
        # a holder object is dropped (collected) while holding; a second contender is already blocked, a third arrives later
        for pr in (0, 3):
            out.append(Cell(name='c02_3t_dropped_holder_prio%d' % pr, sig='s1: int, s2: int, p1: int, q1: int',
                            pre=['s1 == 0 and 0 <= s2 <= 1 and 0 <= p1 <= 120 and 0 <= q1 <= %d' % (1 if pr == 0 else 0)],
                            body='H.scen_c02([6, s1, s2], -1, False, 3, 2, %d, p1, q1, 0, 0, 1, 1, (0, 1, 2), -1, (0, 0, 3))' % pr, tier=q, timeout=900, family='c02', weight=4))
        out.append(Cell(name='c02_3t_nested_prio0_quick', sig='p1: int, q1: int', pre=['0 <= p1 <= 170 and 0 <= q1 <= 1'],
                        body='H.scen_c02([5, 5, 0], -1, True, 2, 1, 0, p1, q1, 0, 0, 1, 1, (0, 0, 1))', tier=q, timeout=900, family='c02', weight=4))
        if tier != 'thorough':
            out = [c for c in out if c.tier == 'quick']
        out.append(Cell(name='twin_c02', sig='styles: List[int], p1: int', pre=['len(styles) == 2 and all(0 <= s <= 1 for s in styles) and 0 <= p1 <= 40'],
                        body='H.twin_c02(styles, p1)', expect='refute', timeout=200, family='c02'))
        if tier == 'thorough':
            for re in (False, True):
                for tmo in (-1, 1):
                    for s0 in range(5):
                        out.append(Cell(
                            name='c02_3t_re%d_tmo%s_s%d' % (re, str(tmo).replace('-', 'm'), s0),
                            sig='s1: int, s2: int, nobj: int, prio_idx: int, p1: int, q1: int',
                            pre=['0 <= s1 <= 4 and 0 <= s2 <= 4 and 1 <= nobj <= 2 and 0 <= prio_idx <= 5 and 0 <= p1 <= 110 and 0 <= q1 <= 1'],
                            body='H.scen_c02([%d, s1, s2], %d, %r, nobj, 1, prio_idx, p1, q1)' % (s0, tmo, re), tier='thorough', timeout=3000, family='c02', weight=3))
                    out.append(Cell(
                        name='c02_2t_k2_re%d_tmo%s' % (re, str(tmo).replace('-', 'm')),
                        sig='styles: List[int], nobj: int, prio_idx: int, p1: int, p2: int',
                        pre=['len(styles) == 2 and all(0 <= s <= 4 for s in styles) and 1 <= nobj <= 2 and 0 <= prio_idx <= 1',
                             '1 <= p1 <= 60 and p1 < p2 <= 70'],
                        body='H.scen_c02(styles, %d, %r, nobj, 1, prio_idx, p1, 0, p2, 0)' % (tmo, re), tier='thorough', timeout=3000, family='c02', weight=3))
                    out.append(Cell(
                        name='c02_2t_2rounds_re%d_tmo%s' % (re, str(tmo).replace('-', 'm')),
                        sig='styles: List[int], nobj: int, prio_idx: int, p1: int',
                        pre=['len(styles) == 4 and all(0 <= s <= 4 for s in styles) and 1 <= nobj <= 2 and 0 <= prio_idx <= 1 and 0 <= p1 <= 130'],
                        body='H.scen_c02(styles, %d, %r, nobj, 1, prio_idx, p1, 0, 0, 0, 2)' % (tmo, re), tier='thorough', timeout=3000, family='c02', weight=3))
    if prop == 'C12':
        sig = 'tt: List[int], oo: List[int], kk: List[int], t_arg: int, poll: int, overshoot: int'
        nk = len(OPS)

        def seqcell(n, re, tmos, tier_, tmo, first=None, fault=False, fix=None):
            pre = ['len(tt) == %d and len(oo) == %d and len(kk) == %d' % (n, n, n),
                   'all(0 <= t <= 1 for t in tt) and all(0 <= o <= 1 for o in oo) and all(0 <= k <= %d for k in kk)' % (nk - 1),
                   't_arg == 1 and poll == 1 and overshoot == 0']
            name = 'c12_seq%d_re%d%d_tmo%s%s%s' % (n, re[0], re[1], '_'.join(str(x).replace('-', 'm') for x in tmos),
                                                 '_k%d' % first if first is not None else '', '_' + fix if fix else '')
            if fix == 'oo':
                pre.append('all(o == 0 for o in oo)')
            if fix == 'tt':
                pre.append('all(t == 0 for t in tt)')
            if first is not None:
                pre.append('kk[0] == %d' % first)
            body = 'H.scen_c12_seq(tt, oo, kk, %r, %r, t_arg, poll, overshoot' % (list(re), list(tmos))
            s = sig
            if fault:
                s += ', fault_call: int, fault_idx: int'
                pre.append('0 <= fault_call <= 3 and 0 <= fault_idx <= 1')
                body += ', fault_call, fault_idx'
                name += '_fault'
            return Cell(name=name, sig=s, pre=pre, body=body + ')', tier=tier_, timeout=tmo, family='c12', weight=3)
        for re in ((0, 0), (1, 1), (1, 0)):
            for lo, hi in ((0, 2), (3, 5), (6, 8)):
                c = seqcell(2, re, (0, 1), q, 900)
                c.name += '_k%d_%d' % (lo, hi)
                c.pre.append('%d <= kk[0] <= %d' % (lo, hi))
                out.append(c)
            out.append(seqcell(2, re, (-1, 2), 'thorough', 1500))
        for re in ((0, 0), (1, 1)):
            for first in range(nk):
                isq = first in (0, 2, 5) or (first == 3 and re == (1, 1))
                out.append(seqcell(3, re, (0, 0), q if isq else 'thorough', 900, first=first, fix='oo'))   # one object, both threads
                isq = first == 2 and re == (0, 0)
                out.append(seqcell(3, re, (0, 0), q if isq else 'thorough', 900, first=first, fix='tt'))   # one thread, both objects
        c = seqcell(2, (1, 0), (0, 0), q, 900, first=2, fault=True, fix='tt')
        out.append(c)
        out.append(seqcell(2, (1, 0), (0, 0), 'thorough', 3000, fault=True))
        out.append(seqcell(2, (0, 1), (0, 0), 'thorough', 3000, fault=True, fix='oo'))
        if tier != 'thorough':
            out = [c for c in out if c.tier == 'quick']
        out.append(Cell(name='c12_timing', sig=sig, pre=['len(tt) == 2 and len(oo) == 2 and len(kk) == 2 and tt[0] == 0 and oo[0] == 0 and kk[0] == 2',
                                                          '0 <= tt[1] <= 1 and 0 <= oo[1] <= 1 and 0 <= kk[1] <= 5 and 0 <= t_arg <= 4 and 1 <= poll <= 3 and 0 <= overshoot <= 1'],
                        body='H.scen_c12_seq(tt, oo, kk, [False, False], [-1, 3], t_arg, poll, overshoot)', tier=q, timeout=400, family='c12', weight=2))
        out.append(Cell(name='c12_blocking', sig='style: int, reentrant: bool, hold: int, prio_idx: int, p1: int',
                        pre=['0 <= style <= 1 and 1 <= hold <= 3 and 0 <= prio_idx <= 1 and 0 <= p1 <= 60'],
                        body='H.scen_c12_blocking(style, reentrant, hold, prio_idx, p1)', tier=q, timeout=400, family='c12', weight=2))
        out.append(Cell(name='twin_c12', sig='tt: List[int], oo: List[int], kk: List[int]',
                        pre=['len(tt) == 4 and len(oo) == 4 and len(kk) == 4 and all(t == 0 for t in tt) and all(o == 0 for o in oo) and kk[0] == 2 and kk[1] == 2 and all(0 <= k <= 8 for k in kk)'],
                        body='H.twin_c12(tt, oo, kk)', expect='refute', timeout=300, family='c12'))
        if tier == 'thorough':
            for re in ((0, 0), (1, 1), (1, 0)):
                for first in range(nk):
                    out.append(seqcell(3, re, (0, 1), 'thorough', 3000, first=first))
                    out.append(seqcell(4, re, (0, 0), 'thorough', 6000, first=first))
                    out.append(seqcell(3, re, (0, 0), 'thorough', 3000, first=first, fault=True))
    if prop == 'C13':
        for prog in range(4):
            for re in (False, True):
                if re and prog != 2:
                    continue
                for ns in (0, 1):
                    out.append(Cell(name='c13_prog%d_re%d_surv%d' % (prog, re, ns), sig='kill_after: int, csdur: int, prio_idx: int',
                                    pre=['1 <= kill_after <= 60 and 0 <= csdur <= 1 and 0 <= prio_idx <= %d' % ns],
                                    body='H.scen_c13(%d, kill_after, %d, csdur, prio_idx, %r, -1)' % (prog, ns, re), tier=q, timeout=600, family='c13', weight=3 + ns))
        for hold in (5, 20):
            out.append(Cell(name='c13_polling_waiter_hold%d' % hold, sig='kill_after: int, prio_idx: int',
                            pre=['1 <= kill_after <= 45 and 0 <= prio_idx <= 1'],
                            body='H.scen_c13_waiter(kill_after, %d, 1, prio_idx)' % hold, tier=q, timeout=600, family='c13', weight=4))
        out.append(Cell(name='c13_polling_waiter_full', sig='kill_after: int, hold: int, poll: int, prio_idx: int',
                        pre=['1 <= kill_after <= 45 and 3 <= hold <= 40 and 1 <= poll <= 2 and 0 <= prio_idx <= 1'],
                        body='H.scen_c13_waiter(kill_after, hold, poll, prio_idx)', tier='thorough', timeout=3000, family='c13', weight=4))
        out.append(Cell(name='twin_c13', sig='kill_after: int', pre=['1 <= kill_after <= 40'], body='H.twin_c13(kill_after)',
                        expect='refute', timeout=200, family='c13'))
        if tier == 'thorough':
            for prog in range(4):
                for tmo in (-1, 2):
                    out.append(Cell(name='c13_2surv_prog%d_tmo%s' % (prog, str(tmo).replace('-', 'm')), sig='kill_after: int, csdur: int, prio_idx: int, reentrant: bool',
                                    pre=['1 <= kill_after <= 90 and 0 <= csdur <= 2 and 0 <= prio_idx <= 23'],
                                    body='H.scen_c13(%d, kill_after, 2, csdur, prio_idx, reentrant, %d)' % (prog, tmo), tier='thorough', timeout=4000, family='c13', weight=3))
    if tier != 'thorough':
        out = [c for c in out if c.tier == 'quick']
    return out


_FUNCS = [('aiuti/filelock.py', 'BaseFileLock.acquire'), ('aiuti/filelock.py', 'BaseFileLock.release'),
          ('aiuti/filelock.py', 'BaseFileLock.acquire_ctx'), ('aiuti/filelock.py', 'BaseFileLock._acquire'),
          ('aiuti/filelock.py', 'BaseFileLock._release'), ('aiuti/filelock.py', 'BaseFileLock._decrement_lock_counter'),
          ('aiuti/filelock.py', 'BaseFileLock.__enter__'), ('aiuti/filelock.py', 'BaseFileLock.__exit__'),
          ('aiuti/filelock.py', 'UnixFileLock._lock'), ('aiuti/filelock.py', 'UnixFileLock._unlock')]
_ASSUME = ['statement-level atomicity: a scheduling point before every statement of every FileLock method (not bytecode level)',
           'threading.Lock/RLock, os.open/close/unlink, fcntl.flock and time are stubs with the contracts of vfw/vt/stubs.py '
           '(flock(2): lock belongs to the open file description, released on LOCK_UN / last close / process death)',
           'the P2/P3 source passes preserve the semantics of the methods (checked by running the repository\'s own test sequences through them)',
           'Unix branch only; __del__-time release is outside the scenarios']
META = {
    'C02': {'explanation': 'FileLock methods from the current source in awaitable form; 2 (quick) or 3 (thorough) logical threads over 1-2 objects on '
                           'one path; acquisition style per thread {acquire(), with, acquire_ctx(timeout), acquire(False), acquire(timeout=t)}, '
                           'object count, critical-section length, thread priority order and the pre-emption position are symbolic: CrossHair '
                           'exhausts every schedule with <= k pre-emptions at statement granularity; the oracle is an occupancy counter in the '
                           'harness-owned critical section.',
            'functions': _FUNCS, 'bounds': 'quick: 2 threads x 1 round, k<=1 pre-emption (every position), constructor timeout in {-1,0,2}, reentrant and not; '
            'thorough: 3 threads, 2 rounds, k<=2; quick also: 3 contenders with a failing timed acquisition, reentrant nesting inside the section, one failing OS unlock over two rounds, a holder object collected while holding with a blocked waiter and a late third contender', 'outside': '4 threads; k>2; 16 free-running OS processes; Windows', 'assumptions': _ASSUME},
    'C12': {'explanation': 'Sequences of FileLock operations (thread, object, kind) with all three components symbolic are executed one operation at a '
                           'time against an executable reference model (owner/depth per object, one flock holder per path); after every operation '
                           'return value / exception, is_locked, open descriptor count in the kernel model and elapsed virtual time are compared, at '
                           'the end every thread and a fresh object probe the lock non-blockingly. OSError is injected at a symbolic call index of '
                           'open/flock/unlock/close. Timeout, poll interval and sleep overshoot are symbolic integers.',
            'functions': _FUNCS, 'bounds': 'quick: sequences of length 2 (all) and 3 (starting with each acquisition kind) over 2 objects x 2 threads, '
            'reentrant/non-reentrant mixes, timeouts 0..3, poll 1..2, overshoot 0..1, single fault at call index 0..2; blocking acquire with a releasing '
            'second thread under every single pre-emption; thorough: length 3-4 for every first operation, faults with length 3',
            'outside': 'length > 4; double faults; releasing a lock from a thread that does not hold it', 'assumptions': _ASSUME},
    'C13': {'explanation': 'A victim process running acquire/hold/release programs (blocking, timed context manager, nested, forced release) is abandoned at '
                           'a symbolic scheduling point - every statement of the FileLock methods it reaches - without running finally blocks, and '
                           'the kernel model closes its descriptors; 0-1 (quick) / 2 (thorough) survivor processes keep cycling; a fresh process must '
                           'acquire within the survivors\' remaining critical sections and survivors never overlap. That the kernel drops the flock '
                           'on process death is the model\'s contract; what is decided about the repository is that no other persistent state '
                           '(marker files, unlink/recreate) can block or split later acquisitions.',
            'functions': _FUNCS, 'bounds': 'quick: 4 victim programs, kill point 1..60, 0..1 survivors, both priority orders, a contender already polling (timed acquire, poll 1..2) while the holder keeps the lock 3..40 ticks before it dies; thorough: 2 survivors, all '
            'priority orders, kill point 1..90, constructor timeout -1 and 2', 'outside': 'a real SIGKILL and the real kernel (model only)', 'assumptions': _ASSUME},
}


def conformance(prop):
    """the repository's own test sequences, executed through the transformed code and the kernel model"""
    # test_simple / test_nested / test_nested_forced_release / test_nonblocking(_multiple_locks) / test_timeout(_different_locks)
    def seq(ops, re=(0, 0), tmos=(-1, -1), t_arg=1):
        d = scen_c12(ops, list(re), list(tmos), t_arg, 1, 0)
        return d
    A, W_, X, R, F, NB, TM = OPS.index('acq_default'), OPS.index('with_enter'), OPS.index('with_exit'), OPS.index('release'), \
        OPS.index('release_force'), OPS.index('acq_nb'), OPS.index('acq_timed')
    assert seq([(0, 0, W_), (0, 0, X)]) == [], LAST_INFO
    assert seq([(0, 0, A), (0, 0, NB), (0, 0, R)]) == [], LAST_INFO
    assert seq([(0, 0, A), (0, 1, NB), (0, 0, R)]) == [], LAST_INFO
    assert seq([(0, 0, A), (0, 0, TM), (0, 0, R)]) == [], LAST_INFO
    assert seq([(0, 0, A), (0, 1, TM), (0, 0, R)]) == [], LAST_INFO
    assert seq([(0, 0, A), (0, 0, A), (0, 0, A), (0, 0, R), (0, 0, R), (0, 0, R)], re=(1, 1)) == [], LAST_INFO
    assert seq([(0, 0, OPS.index('ctx_enter')), (0, 0, OPS.index('ctx_exit'))]) == [], LAST_INFO
    d = scen_c02([1, 1], -1, False, 1, 1, 0, 0, 0)
    assert d == [] and RAW['entered'] == 2, (d, LAST_INFO)
    d = scen_c02([0, 3], -1, False, 2, 1, 1, 5, 0)
    assert d == [], (d, LAST_INFO)
    d = scen_c13(0, 12, 1, 1, 0, False, -1)
    assert d == [], (d, LAST_INFO)
