"""C19 - parse_to_dict: splits once at the first separator, three input shapes agree, parser failures
keep the original, non-strings pass through, default parser builds literals only.

(a) arbitrary strings (symbolic str, z3 sequence theory) with a contract-stub parser whose outcome per
    call is a symbolic choice {tag, raise one of several Exception classes};
(b) default parser: items are symbolic *indices* into a fragment table (ast.literal_eval realises its
    argument, so the solver's part there is only the enumeration of index combinations), compared
    with hand-written expected values, with a tripwire object reachable by name from any evaluated code.
"""
import vfw.prelude  # noqa: F401
import builtins

from vfw.cells import Cell
from aiuti.parsing import parse_to_dict

LAST_INFO = None


class _PE1(Exception):
    pass


class _PE2(LookupError):
    pass


PARSER_EXC = (ValueError, SyntaxError, _PE1, _PE2, TypeError, RuntimeError)


class Tagged:
    """Result of the stub parser: identifiable, hashable without looking at the (symbolic) text."""

    def __init__(self, s):
        self.s = s

    def __hash__(self):
        return 11

    def __eq__(self, o):
        return isinstance(o, Tagged) and o.s == self.s

    def __repr__(self):
        return 'Tagged(%r)' % (self.s,)


def _stub(fail_pattern, exc_idx, log):
    def parse(x):
        k = len(log)
        log.append(x)
        if not isinstance(x, str):
            return x
        if (fail_pattern >> k) & 1 if k < 4 else False:
            raise PARSER_EXC[exc_idx]('stub')
        return Tagged(x)
    return parse


def _model_pair(k, v, parse_keys, fails, idx):
    """reference: (key, value) after parsing; idx = running parser call index (list of one int)."""
    def tp(x):
        if isinstance(x, str):
            i = idx[0]
            idx[0] += 1
            if i < 4 and (fails >> i) & 1:
                return x
            return Tagged(x)
        return x
    if parse_keys:
        kk = tp(k)
        return kk, tp(v)
    return k, tp(v)


def _same(a, b):
    if isinstance(a, Tagged) or isinstance(b, Tagged):
        return isinstance(a, Tagged) and isinstance(b, Tagged) and a.s == b.s
    return type(a) is type(b) and a == b


def _dict_equal(r, exp):
    """exp: list of (key, value) in insertion order with later duplicates winning (dict semantics)."""
    try:
        items = list(r.items())
    except Exception:  # noqa
        return False
    model = []
    for k, v in exp:
        for j, (mk, _) in enumerate(model):
            if _same(mk, k):
                model[j] = (mk, v)
                break
        else:
            model.append((k, v))
    if len(items) != len(model):
        return False
    return all(_same(a[0], b[0]) and (_same(a[1], b[1])) for a, b in zip(items, model))


def scen_joined(item, sep, parse_keys, fails, exc_idx):
    """one 'key<sep>value' string, stub parser."""
    global LAST_INFO
    devs = []
    log = []
    i = item.find(sep)
    try:
        r = parse_to_dict([item], sep=sep, parse=_stub(fails, exc_idx, log), parse_keys=parse_keys)
        err = None
    except ValueError as e:
        r, err = None, e
    except Exception as e:  # noqa
        return ['raised:' + type(e).__name__]
    if i < 0:
        if err is None:
            devs.append('missing-separator-accepted')
        if not vfw.prelude.tracing():
            LAST_INFO = {'item': str(item), 'sep': str(sep), 'result': repr(r), 'error': repr(err)}
        return devs
    if err is not None:
        return ['ValueError-although-separator-present']
    k, v = item[:i], item[i + len(sep):]
    exp = [_model_pair(k, v, parse_keys, fails, [0])]
    if not _dict_equal(r, exp):
        ritems = list(r.items())
        if len(ritems) == 1 and isinstance(ritems[0][0], (str, Tagged)):
            rk = ritems[0][0].s if isinstance(ritems[0][0], Tagged) else ritems[0][0]
            if rk != k:
                devs.append('not-split-at-first-separator')
            else:
                devs.append('wrong-value-or-parse-outcome')
        else:
            devs.append('wrong-result')
    n_expected_calls = 2 if parse_keys else 1
    if len(log) != n_expected_calls:
        devs.append('parser-call-count')
    if not vfw.prelude.tracing():
        LAST_INFO = {'item': str(item), 'sep': str(sep), 'parse_keys': bool(parse_keys), 'fails': int(fails),
                 'result': repr(r), 'expected': repr(exp)}
    return devs


def scen_shapes(k, v, sep, parse_keys, fails, exc_idx):
    """mapping / pair list / joined string describing the same pair give the same dictionary."""
    global LAST_INFO
    devs = []
    outs = []
    shapes = [('mapping', dict([(k, v)])), ('pairs', [(k, v)]), ('pairs-list', [[k, v]]), ('joined', [k + sep + v])]
    for name, items in shapes:
        log = []
        try:
            r = parse_to_dict(items, sep=sep, parse=_stub(fails, exc_idx, log), parse_keys=parse_keys)
        except Exception as e:  # noqa
            devs.append('raised-for-%s:%s' % (name, type(e).__name__))
            continue
        exp = [_model_pair(k, v, parse_keys, fails, [0])]
        if not _dict_equal(r, exp):
            devs.append('wrong-result-for-' + name)
    if not vfw.prelude.tracing():
        LAST_INFO = {'k': str(k), 'v': str(v), 'sep': str(sep)}
    return devs


class _Obj:
    pass


def scen_nonstring(k, n, which, parse_keys, fails):
    """non-string values (and keys) pass through untouched and are never given to the parser."""
    global LAST_INFO
    devs = []
    o = _Obj()
    val = n if which == 0 else (None if which == 1 else (o if which == 2 else (n, k)))
    log = []
    for name, items in (('mapping', dict([(k, val)])), ('pairs', [(k, val)])):
        del log[:]
        try:
            r = parse_to_dict(items, parse=_stub(fails, 0, log), parse_keys=parse_keys)
        except Exception as e:  # noqa
            devs.append('raised:' + type(e).__name__)
            continue
        vals = list(r.values())
        if len(vals) != 1 or vals[0] is not val and not (which in (0, 3) and vals[0] == val and type(vals[0]) is type(val)):
            devs.append('non-string-value-changed')
        if any(not isinstance(x, str) for x in log):
            devs.append('parser-called-on-non-string')
    # non-string key
    del log[:]
    try:
        r = parse_to_dict([(n, k)], parse=_stub(fails, 0, log), parse_keys=parse_keys)
        keys = list(r.keys())
        if len(keys) != 1 or not (keys[0] == n and isinstance(keys[0], int)):
            devs.append('non-string-key-changed')
    except Exception as e:  # noqa
        devs.append('raised:' + type(e).__name__)
    if not vfw.prelude.tracing():
        LAST_INFO = {'k': str(k), 'which': int(which)}
    return devs


def scen_two(a, b, sep, parse_keys, fails):
    """two joined items: order, later-duplicate-wins, ValueError for any item without separator."""
    global LAST_INFO
    devs = []
    log = []
    items = [a, b]
    try:
        r = parse_to_dict(iter(items), sep=sep, parse=_stub(fails, 0, log), parse_keys=parse_keys)
        err = None
    except ValueError as e:
        r, err = None, e
    except Exception as e:  # noqa
        return ['raised:' + type(e).__name__]
    idx = [0]
    exp = []
    bad = False
    for it in items:
        i = it.find(sep)
        if i < 0:
            bad = True
            break
        exp.append(_model_pair(it[:i], it[i + len(sep):], parse_keys, fails, idx))
    if bad:
        if err is None:
            devs.append('missing-separator-accepted')
    elif err is not None:
        devs.append('ValueError-although-separator-present')
    elif not _dict_equal(r, exp):
        devs.append('wrong-result')
    if not vfw.prelude.tracing():
        LAST_INFO = {'items': [str(a), str(b)], 'sep': str(sep), 'result': repr(r), 'expected': repr(exp)}
    return devs


# ------------------------------------------------------------------ (b) default parser
class _Trip:
    fired = 0

    def __getattr__(self, name):
        _Trip.fired += 1
        return self

    def __call__(self, *a, **k):
        _Trip.fired += 1
        return self

    def _op(self, *a):
        _Trip.fired += 1
        return self
    __add__ = __radd__ = __sub__ = __mul__ = __getitem__ = __neg__ = __invert__ = _op

    def __bool__(self):
        _Trip.fired += 1
        return True


KEEP = object()
# fragment -> expected parsed value (KEEP: stays the original string); hashable ones may be keys
FRAGMENTS = [
    ('1', 1), ('-7', -7), ('1.5', 1.5), ('"b"', 'b'), ("'x y'", 'x y'), ('(1, 2)', (1, 2)), ('None', None), ('True', True),
    ('False', False), (' 3', 3), ('1+2j', 1 + 2j), ('b"z"', b'z'), ('()', ()),
    ('a', KEEP), ('abc def', KEEP), ('', KEEP), ('trip', KEEP), ('trip.fire()', KEEP), ('trip()', KEEP), ('trip + 1', KEEP),
    ('trip[0]', KEEP), ('f(1)', KEEP), ('a.b', KEEP), ('1+2', KEEP), ('2**8', KEEP), ('[x for x in ()]', KEEP),
    ('__import__("os")', KEEP), ('lambda: 1', KEEP), ('1 if trip else 2', KEEP), ('not trip', KEEP), ('-trip', KEEP),
    ('len("ab")', KEEP), ('"a" "b"', 'ab'), ('1_000', 1000), ('0x10', 16), ('...', Ellipsis),
    # unhashable literals: only as values
    ('{1, 2}', {1, 2}), ('[1, "a"]', [1, 'a']), ('{"k": [1]}', {'k': [1]}), ('[trip]', KEEP), ('{"k": trip()}', KEEP), ('(1, trip.x)', KEEP),
]
N_KEYABLE = 36


def _expected(frag_idx):
    s, e = FRAGMENTS[frag_idx]
    return s if e is KEEP else e


def scen_default(ki, vi, shape, parse_keys, sepi):
    """default parser on fragments chosen by symbolic indices; tripwire reachable as builtin name `trip`."""
    global LAST_INFO
    devs = []
    sep = ('=', ':', '=>', '::')[sepi]
    ks, vs = FRAGMENTS[ki][0], FRAGMENTS[vi][0]
    if shape == 2 and sep in ks:
        return []
    items = {ks: vs} if shape == 0 else ([(ks, vs)] if shape == 1 else [ks + sep + vs])
    _Trip.fired = 0
    builtins.trip = _Trip()
    try:
        try:
            r = parse_to_dict(items, sep=sep, parse_keys=parse_keys)
        except Exception as e:  # noqa
            return ['raised:' + type(e).__name__]
    finally:
        fired = _Trip.fired
        del builtins.trip
    if fired:
        devs.append('code-evaluated')
    ek = _expected(ki) if parse_keys else ks
    ev = _expected(vi)
    its = list(r.items())
    if len(its) != 1:
        devs.append('wrong-result')
    else:
        (rk, rv) = its[0]
        if type(rk) is not type(ek) or rk != ek:
            devs.append('wrong-key')
        if isinstance(rv, _Trip) or type(rv) is not type(ev) or rv != ev:
            devs.append('wrong-value')
    if not vfw.prelude.tracing():
        LAST_INFO = {'key': ks, 'value': vs, 'shape': int(shape), 'sep': sep, 'parse_keys': bool(parse_keys), 'result': repr(r)}
    return devs


MUTABLE_FRAGS = ('[1, "a"]', '{"k": [1]}', '{1, 2}', '[]', '{}', '[[1], 2]')


def scen_reparse(fi, as_key_too):
    """every call builds its own fresh literals: mutating an earlier result must not show in a later call"""
    global LAST_INFO
    import ast as _ast
    devs = []
    txt = MUTABLE_FRAGS[vfw.prelude.pick(fi, len(MUTABLE_FRAGS))]
    as_key_too = bool(as_key_too)
    if vfw.prelude.tracing():
        # the engine makes functools.lru_cache transparent (it skips caches to keep paths independent), which would hide exactly the
        # cross-call state this scenario is about; with the inputs already concrete, the body runs natively
        from crosshair.tracers import NoTracing
        with NoTracing():
            return _reparse_native(txt, as_key_too)
    return _reparse_native(txt, as_key_too)


def _reparse_native(txt, as_key_too):
    global LAST_INFO
    import ast as _ast
    devs = []
    exp = _ast.literal_eval(txt)
    r1 = parse_to_dict([('a', txt), ('b', txt)])
    v1, v1b = r1.get('a'), r1.get('b')
    if v1 is v1b and v1 is not None:
        devs.append('two-values-share-one-object')
    try:
        if isinstance(v1, list):
            v1.append('mutated')
        elif isinstance(v1, dict):
            v1['mutated'] = 1
        elif isinstance(v1, set):
            v1.add('mutated')
    except Exception:  # noqa
        pass
    r2 = parse_to_dict(dict([('a', txt)]) if as_key_too else ['a=' + txt])
    v2 = r2.get('a')
    if type(v2) is not type(exp) or v2 != exp:
        devs.append('later-call-returned-mutated-or-stale-object')
    if not vfw.prelude.tracing():
        LAST_INFO = {'text': txt, 'first': repr(v1), 'second': repr(v2)}
    return devs


def twin_joined(item, sep):
    """Reachability: 'the separator occurs twice and the value part is non-empty'."""
    devs = scen_joined(item, sep, True, 0, 0)
    if devs:
        return []
    i = item.find(sep)
    return ['reached'] if i >= 0 and item.find(sep, i + len(sep)) >= 0 else []


def cells(prop, tier):
    out = []
    q = 'quick'
    JSIG = 'item: str, sep: str, parse_keys: bool, fails: int'
    for L, S, t in ((3, 1, q), (4, 1, q), (5, 1, q), (4, 2, q), (5, 2, q)):
        out.append(Cell(name='joined_len%d_sep%d' % (L, S), sig=JSIG,
                        pre=['len(item) <= %d and len(sep) == %d' % (L, S), '0 <= fails <= 3'],
                        body='H.scen_joined(item, sep, parse_keys, fails, 2)', tier=t, timeout=170, family='joined'))
    out.append(Cell(name='joined_exception_kinds', sig='item: str, fails: int, exc_idx: int',
                    pre=['len(item) <= 2', '1 <= fails <= 3 and 0 <= exc_idx <= %d' % (len(PARSER_EXC) - 1)],
                    body='H.scen_joined(item, "=", True, fails, exc_idx)', tier=q, timeout=170, family='joined'))
    out.append(Cell(name='shapes_k3_v2', sig='k: str, v: str, sep: str, parse_keys: bool, fails: int',
                    pre=['len(k) <= 3 and len(v) <= 2 and len(sep) == 1 and (k + sep + v).find(sep) == len(k)', '0 <= fails <= 3'],
                    body='H.scen_shapes(k, v, sep, parse_keys, fails, 3)', tier=q, timeout=170, family='shapes'))
    out.append(Cell(name='shapes_k1_v2_sep2', sig='k: str, v: str, sep: str, parse_keys: bool',
                    pre=['len(k) <= 1 and len(v) <= 2 and len(sep) == 2 and (k + sep + v).find(sep) == len(k)'],
                    body='H.scen_shapes(k, v, sep, parse_keys, 2, 2)', tier=q, timeout=170, family='shapes'))
    for which in range(4):
        out.append(Cell(name='nonstring_%d' % which, sig='k: str, n: int, parse_keys: bool, fails: int',
                        pre=['len(k) <= 2 and 0 <= fails <= 3'],
                        body='H.scen_nonstring(k, n, %d, parse_keys, fails)' % which, tier=q, timeout=120, family='nonstring'))
    for pk in (True, False):
        out.append(Cell(name='two_items_len2_pk%d' % pk, sig='a: str, b: str, sep: str, fails: int',
                        pre=['len(a) <= 2 and len(b) <= 2 and len(sep) == 1 and 0 <= fails <= %d' % (15 if pk else 3)],
                        body='H.scen_two(a, b, sep, %r, fails)' % pk, tier=q, timeout=170, family='two'))
    nf = len(FRAGMENTS)
    # default parser (pure enumeration through symbolic indices)
    for shape in (0, 1, 2):
        out.append(Cell(name='default_values_shape%d' % shape, sig='vi: int, parse_keys: bool',
                        pre=['0 <= vi <= %d' % (nf - 1)],
                        body='H.scen_default(13, vi, %d, parse_keys, 0)' % shape, tier=q, timeout=170, family='default'))
        out.append(Cell(name='default_keys_shape%d' % shape, sig='ki: int, parse_keys: bool',
                        pre=['0 <= ki <= %d' % (N_KEYABLE - 1)],
                        body='H.scen_default(ki, 0, %d, parse_keys, 0)' % shape, tier=q, timeout=170, family='default'))
    out.append(Cell(name='default_reparse_after_mutation', sig='fi: int, as_key_too: bool', pre=['0 <= fi <= %d' % (len(MUTABLE_FRAGS) - 1)],
                    body='H.scen_reparse(fi, as_key_too)', tier=q, timeout=120, family='default'))
    out.append(Cell(name='default_seps', sig='ki: int, vi: int, sepi: int',
                    pre=['10 <= ki <= 18 and 15 <= vi <= 24 and 1 <= sepi <= 3'],
                    body='H.scen_default(ki, vi, 2, True, sepi)', tier=q, timeout=170, family='default'))
    out.append(Cell(name='twin_two_separators', sig='item: str, sep: str', pre=['len(item) <= 3 and len(sep) == 1'],
                    body='H.twin_joined(item, sep)', expect='refute', timeout=90, family='joined'))
    if tier == 'thorough':
        for L, S in ((6, 1), (6, 2), (7, 1), (6, 3)):
            out.append(Cell(name='joined_len%d_sep%d' % (L, S), sig=JSIG,
                            pre=['len(item) <= %d and len(sep) == %d' % (L, S), '0 <= fails <= 3'],
                            body='H.scen_joined(item, sep, parse_keys, fails, 2)', tier='thorough', timeout=1500, family='joined'))
        out.append(Cell(name='shapes_k4_v3', sig='k: str, v: str, sep: str, parse_keys: bool, fails: int',
                        pre=['len(k) <= 4 and len(v) <= 3 and 1 <= len(sep) <= 2 and (k + sep + v).find(sep) == len(k)', '0 <= fails <= 3'],
                        body='H.scen_shapes(k, v, sep, parse_keys, fails, 4)', tier='thorough', timeout=1500, family='shapes'))
        out.append(Cell(name='two_items_len3', sig='a: str, b: str, sep: str, parse_keys: bool, fails: int',
                        pre=['len(a) <= 3 and len(b) <= 3 and 1 <= len(sep) <= 2 and 0 <= fails <= 15'],
                        body='H.scen_two(a, b, sep, parse_keys, fails)', tier='thorough', timeout=1500, family='two'))
        step = 3
        for lo in range(0, N_KEYABLE, step):
            hi = min(lo + step, N_KEYABLE) - 1
            out.append(Cell(name='default_cross_%02d_%02d' % (lo, hi), sig='ki: int, vi: int, shape: int, parse_keys: bool',
                            pre=['%d <= ki <= %d and 0 <= vi <= %d and 0 <= shape <= 2' % (lo, hi, nf - 1)],
                            body='H.scen_default(ki, vi, shape, parse_keys, 0)', tier='thorough', timeout=900, family='default'))
    return out


META = {'C19': {
    'explanation': 'parse_to_dict from /repo/aiuti/parsing.py executed by CrossHair. Part (a): item/key/value/separator are symbolic '
                   'Unicode strings (z3 sequence theory), the parser is a contract stub whose outcome per call (tag / raise one of six '
                   'Exception classes) is symbolic; the oracle is an independent model (find + slicing, running call index). '
                   'Part (b): default parser on fragments chosen by symbolic indices from a 42-entry table with hand-written expected '
                   'values and a tripwire object reachable as a builtin name; ast.literal_eval realises its argument, so part (b) is '
                   'an enumeration driven by the solver, not symbolic string reasoning.',
    'functions': [('aiuti/parsing.py', 'parse_to_dict')],
    'bounds': 'quick: item strings len<=4, separators len 1..2, key/value len<=2 for shape agreement, 2 items of len<=2; '
              'thorough: item len<=6, k,v len<=3; parser failure patterns over the first 4 parser calls; default parser: every '
              '(key fragment, value fragment, shape, parse_keys) combination of the table with sep "=", and 3 more separators',
    'outside': 'longer strings; item lists longer than 2; parsers raising BaseException that is not Exception; '
               'correctness of ast.literal_eval itself (stdlib, trusted)',
    'assumptions': ['z3 string theory as used by CrossHair for str.split/find/slicing', 'ast.literal_eval is trusted'],
}}


def conformance(prop):
    assert scen_joined('a=1=2', '=', True, 0, 0) == []
    assert scen_joined('abc', '=', True, 0, 0) == []
    assert scen_shapes('a', '1', '=', True, 1, 2) == []
    assert scen_nonstring('a', 5, 2, True, 0) == []
    assert scen_two('a=1', 'a=2', '=', False, 0) == []
    for ki in range(N_KEYABLE):
        for vi in range(len(FRAGMENTS)):
            for shape in (0, 1, 2):
                d = scen_default(ki, vi, shape, True, 0)
                assert d == [], (FRAGMENTS[ki], FRAGMENTS[vi], shape, d, LAST_INFO)
