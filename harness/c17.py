"""C17 - ensure_aw / run_aw_threadsafe / loop_in_thread (Mode T).

ensure_aw, run_aw_threadsafe, loop_in_thread, _get_loop_lock and their nested helpers are loaded from the
current source in awaitable form; the shared thread pool is the logical-thread executor, threading.Lock the
VLock stub; caller loops and the target loop are real asyncio loops (SimLoop).
Symbolic: state of the target loop, kind/outcome/duration of each awaitable, arrival delays, priority
order and pre-emption position.
"""
import vfw.prelude  # noqa: F401
import asyncio as aio

from vfw.prelude import pick, tracing, refuel, reraise_engine, StepBound
from vfw.cells import Cell
from vfw import loader
from vfw.vt import world as vt
from vfw.vt import transform, stubs, simloop

LAST_INFO = None
RAW = None

_NAMES = ('ensure_aw', 'loop_in_thread', '_get_loop_lock', 'run_aw_threadsafe')
_TR = transform.Asyncify(lambda qual, n: qual.split('.')[0] in _NAMES, local_rule=True)
M = loader.load('aiuti/asyncio.py', 'aiuti_asyncio_modeT_xloop', extra_passes=[_TR],
                rebind={**stubs.MODE_T_REBIND, 'ThreadPoolExecutor': simloop.VExecutor, 'sleep': simloop.vsleep,
                        'queue': simloop.VQueueModule},
                class_bases={'DaemonTask': '_vf_SimTask'}, inject={'_vt': vt, '_vf_SimTask': simloop.SimTask})
try:
    M.DaemonTask.__del__ = lambda self: None
except Exception:  # noqa
    pass
aio.set_event_loop_policy(simloop.SimPolicy())


class AwErr(ValueError):
    pass


TARGET = ('idle', 'running', 'closed', 'own')
AWKIND = ('coro', 'task', 'future')


def _reset():
    refuel()
    try:
        M._LOOP_LOCKS.clear()
        M._CROSS_LOOP_POOL.workers = []
    except Exception:  # noqa
        pass


def scen_ensure(target, ncallers, delays, durs, fails, awkind, api, prio_idx, p1, q1=0):
    """ncallers caller threads (own loops) each call ensure_aw / run_aw_threadsafe(work_i, T) after delays[i]."""
    global LAST_INFO, RAW
    _reset()
    target = TARGET[pick(target, 4)]
    awkind = AWKIND[pick(awkind, 3)]
    ncallers = pick(ncallers - 1, 2) + 1
    nth = ncallers + (1 if target == 'running' else 0)
    W = vt.World(prio=vt.permutation(nth, pick(prio_idx, [1, 1, 2, 6][nth])), preempts=[(p1, q1)], max_steps=6000, trace=not tracing())
    T = simloop.SimLoop('T', W)
    callers = [simloop.SimLoop('L%d' % i, W) for i in range(ncallers)]
    out = {}
    seen = {}
    excs = {}
    stop_box = {}
    use_run_aw = bool(api) and target == 'running'   # run_aw_threadsafe is only specified for a running target

    def make_caller(i):
        L = callers[i]
        tgt = L if target == 'own' else T

        async def work():
            seen[i] = aio.get_running_loop()
            if durs[i] > 0:
                await aio.sleep(durs[i])
            if fails[i]:
                excs[i] = AwErr(i)
                raise excs[i]
            return ('res', i)

        async def main():
            if delays[i] > 0:
                await aio.sleep(delays[i])
            if i in pre_aw:
                aw = pre_aw[i]
            elif awkind == 'coro':
                aw = work()
            elif awkind == 'task':
                aw = tgt.create_task(work())
            else:
                aw = tgt.create_future()

                def _fill(f=aw):
                    seen[i] = tgt
                    if fails[i]:
                        excs[i] = AwErr(i)
                        f.set_exception(excs[i])
                    else:
                        f.set_result(('res', i))
                tgt.call_soon_threadsafe(_fill)
            try:
                if use_run_aw:
                    out[i] = ('ok', await M.run_aw_threadsafe(aw, tgt))
                else:
                    out[i] = ('ok', await M.ensure_aw(aw, tgt))
            except BaseException as e:  # noqa
                reraise_engine(e)
                if isinstance(e, (aio.CancelledError, GeneratorExit, KeyboardInterrupt, SystemExit)):
                    raise
                out[i] = ('exc', e)
                if hasattr(aw, 'close') and awkind == 'coro':
                    try:
                        aw.close()
                    except Exception:  # noqa
                        pass
            out[(i, 'at')] = W.now

        async def thread():
            await L.run_until_complete(main())
        return thread()

    pre_aw = {}
    if target == 'closed':
        # futures / tasks that belong to the target are made while it is still open (a done future for caller 0 when it does not fail)
        for i in range(ncallers):
            if awkind == 'future':
                f_ = T.create_future()
                if not fails[i]:
                    f_.set_result(('res', i))
                pre_aw[i] = f_
            elif awkind == 'task':
                async def _never(i=i):
                    return ('res', i)
                pre_aw[i] = T.create_task(_never())
        T.close()
    threads = []
    if target == 'running':
        async def starter():
            stop = await vt.call(M.loop_in_thread, T)
            stop_box['running_on_return'] = T.is_running()
            stop_box['stop'] = stop
            # keep the loop up until every caller is done, then stop it
            await vt.Tok('blocked', lambda: all(t.done for t in threads))
            await vt.call(stop)
            stop_box['running_after_stop'] = T.is_running()
        # callers start once loop_in_thread has returned (the target *is* running when they look at it)
        bodies = [make_caller(i) for i in range(ncallers)]

        async def starter():   # noqa: F811
            stop = await vt.call(M.loop_in_thread, T)
            stop_box['running_on_return'] = T.is_running()
            for i in range(ncallers):
                threads.append(W.spawn('X%d' % i, bodies[i]))
            await vt.Tok('blocked', lambda: all(t.done for t in threads))
            await vt.call(stop)
            stop_box['running_after_stop'] = T.is_running()
        W.spawn('S', starter())
    else:
        for i in range(ncallers):
            threads.append(W.spawn('X%d' % i, make_caller(i)))
    r = W.run()
    alive = [(t.name, t.status.kind) for t in W.threads if not t.done]
    t_running_at_end = T.is_running()
    W.abandon_all()
    simloop.close_leftovers(callers + [T])
    devs = []
    if T.double_run or any(L.double_run for L in callers):
        devs.append('loop-run-by-two-threads-at-once')
    if r != 'done':
        pend = [i for i in range(ncallers) if i not in out]
        if r == 'deadlock' and pend:
            # the known mechanism: the other caller borrowed the idle target and finished, the target stopped with it,
            # and the pending caller's awaitable (scheduled onto the then-running target) was never run to completion
            both_idle_target = target == 'idle' and ncallers == 2 and not t_running_at_end and \
                all(out.get(j, ('', None))[0] in ('ok', 'exc') for j in range(ncallers) if j not in pend) and \
                not any(nm.startswith('worker') for nm, _ in alive)     # no pool thread is stuck (e.g. on the per-loop lock)
            devs.append('ensure_aw-never-completes:second-caller-on-loop-run-by-first-caller' if both_idle_target and len(pend) == 1
                        else 'ensure_aw-never-completes')
        else:
            devs.append('schedule-does-not-terminate' if r == 'stepbound' else 'threads-stuck')
    for i in range(ncallers):
        o = out.get(i)
        if o is None:
            continue
        if target == 'closed':
            if not (o[0] == 'exc' and isinstance(o[1], RuntimeError)):
                devs.append('closed-target-did-not-raise-RuntimeError')
            continue
        if fails[i]:
            if not (o[0] == 'exc' and o[1] is excs.get(i)):
                devs.append('caller-did-not-receive-its-awaitables-exception')
        else:
            if o != ('ok', ('res', i)):
                devs.append('caller-did-not-receive-its-awaitables-result')
        exp_loop = callers[i] if target == 'own' else T
        if i in seen and seen[i] is not exp_loop:
            devs.append('awaitable-evaluated-on-wrong-loop')
    if target == 'running' and r == 'done':
        if stop_box.get('running_on_return') is not True:
            devs.append('loop_in_thread-returned-before-loop-running')
        if stop_box.get('running_after_stop') is not False:
            devs.append('stop-returned-before-loop-stopped')
    for t in W.threads:
        if t.exc is not None:
            devs.append('thread-raised:' + type(t.exc).__name__)
    RAW = {'result': r, 'out': out}
    if not tracing():
        LAST_INFO = {'target': target, 'ncallers': ncallers, 'delays': list(delays), 'durs': list(durs), 'fails': list(fails), 'awkind': awkind,
                     'api': 'run_aw_threadsafe' if use_run_aw else 'ensure_aw', 'result': r, 'out': {str(k): repr(v) for k, v in out.items()},
                     'alive': alive, 'double_run': T.double_run, 'stop_box': {k: v for k, v in stop_box.items() if k != 'stop'},
                     'threads': [(t.name, t.done, t.status.kind, repr(t.exc)) for t in W.threads], 'trace_tail': W.trace[-30:] if W.trace else None}
    return sorted(set(devs))


def scen_two_starters(prio_idx, p1, q1):
    """two threads call loop_in_thread on the same loop: never two runners; the loser must not run it"""
    global LAST_INFO
    _reset()
    W = vt.World(prio=vt.permutation(2, pick(prio_idx, 2)), preempts=[(p1, q1)], max_steps=3000, trace=not tracing())
    T = simloop.SimLoop('T', W)
    box = {}

    async def starter(i):
        stop = await vt.call(M.loop_in_thread, T)
        box[i] = T.is_running()
        await vt.Tok('sleep', W.now + 2 + i)
        await vt.call(stop)
    W.spawn('S0', starter(0))
    W.spawn('S1', starter(1))
    r = W.run()
    W.abandon_all()
    simloop.close_leftovers([T])
    devs = []
    if T.double_run:
        devs.append('loop-run-by-two-threads-at-once')
    if any(v is not True for v in box.values()):
        devs.append('loop_in_thread-returned-before-loop-running')
    if not tracing():
        LAST_INFO = {'result': r, 'box': box, 'double_run': T.double_run,
                     'threads': [(t.name, t.done, t.status.kind, repr(t.exc)) for t in W.threads]}
    return devs


def scen_stop_while_busy(block, d, prio_idx, p1):
    """stop() is called while the loop thread is stuck in a synchronous step of `block` ticks: it returns only once the loop stopped"""
    global LAST_INFO
    _reset()
    W = vt.World(prio=vt.permutation(2, pick(prio_idx, 2)), preempts=[(p1, 0)], max_steps=3000, trace=not tracing())
    T = simloop.SimLoop('T', W)
    box = {}

    async def blocker():
        box['blocked_from'] = W.now
        await vt.Tok('sleep', W.now + block)     # a token inside a task step suspends the whole loop thread: a synchronous blocking step
        box['blocked_until'] = W.now

    async def starter():
        stop = await vt.call(M.loop_in_thread, T)
        T.call_soon_threadsafe(lambda: T.create_task(blocker()))
        await vt.Tok('sleep', W.now + d)
        await vt.call(stop)
        box['running_after_stop'] = T.is_running()
        box['stop_returned_at'] = W.now
    W.spawn('S', starter())
    r = W.run()
    W.abandon_all()
    simloop.close_leftovers([T])
    devs = []
    if r != 'done':
        devs.append('stop-never-returns' if r == 'deadlock' else 'schedule-does-not-terminate')
    elif box.get('running_after_stop') is not False:
        devs.append('stop-returned-before-loop-stopped')
    for t in W.threads:
        if t.exc is not None:
            devs.append('thread-raised:' + type(t.exc).__name__)
    if T.double_run:
        devs.append('loop-run-by-two-threads-at-once')
    if not tracing():
        LAST_INFO = {'block': block, 'd': d, 'result': r, 'box': box, 'threads': [(t.name, t.done, t.status.kind, repr(t.exc)) for t in W.threads]}
    return devs


def twin(p1):
    """Reachability: ensure_aw borrowed an idle loop through the pool and was pre-empted while doing so."""
    d = scen_ensure(0, 1, [0, 0], [2, 0], [False, False], 0, 0, 0, p1)
    if d:
        return []
    return ['reached'] if RAW['out'].get(0) == ('ok', ('res', 0)) and p1 >= 3 else []


def cells(prop, tier):
    out = []
    q = 'quick'
    for tg in range(4):
        tname = TARGET[tg]
        if tname in ('closed', 'own', 'idle'):
            out.append(Cell(name='c17_%s_1caller' % tname,
                            sig='delays: List[int], durs: List[int], fails: List[bool], awkind: int, api: bool, prio_idx: int, p1: int',
                            pre=['len(delays) == 2 and len(durs) == 2 and len(fails) == 2 and all(0 <= d <= 2 for d in delays) and all(0 <= d <= 3 for d in durs)',
                                 '0 <= awkind <= 2 and prio_idx == 0 and 0 <= p1 <= 120'],
                            body='H.scen_ensure(%d, 1, delays, durs, fails, awkind, api, prio_idx, p1)' % tg, tier=q, timeout=900, family='ensure', weight=2))
        if tname == 'running':
            for ak in range(3):
                for api in (False, True):
                    out.append(Cell(name='c17_running_1caller_%s_%s' % (AWKIND[ak], 'run_aw' if api else 'ensure_aw'),
                                    sig='delays: List[int], durs: List[int], fails: List[bool], prio_idx: int, p1: int',
                                    pre=['len(delays) == 2 and len(durs) == 2 and len(fails) == 2 and all(0 <= d <= 1 for d in delays) and all(0 <= d <= 2 for d in durs)',
                                         '0 <= prio_idx <= 1 and 0 <= p1 <= 120'],
                                    body='H.scen_ensure(%d, 1, delays, durs, fails, %d, %r, prio_idx, p1)' % (tg, ak, api), tier=q, timeout=900, family='ensure', weight=3))
        if tname in ('idle', 'running'):
            # quick: fixed durations/outcomes, every single pre-emption under two priority orders
            for ak in range(3):
                if tname == 'running' and ak != 0:
                    continue
                out.append(Cell(name='c17_%s_2callers_%s_fixed' % (tname, AWKIND[ak]), sig='prio_idx: int, p1: int',
                                pre=['0 <= prio_idx <= 1 and 0 <= p1 <= 160'],
                                body='H.scen_ensure(%d, 2, [0, 0], [2, 1], [False, %r], %d, False, prio_idx, p1)' % (tg, tname == 'running', ak),
                                tier=q, timeout=1200, family='ensure', weight=5))
            # thorough: symbolic durations and outcomes, all priority orders
            for ak in range(3):
                for dl in ([0, 0], [0, 1]):
                    for pr in range(6 if tname == 'running' else 2):
                        out.append(Cell(name='c17_%s_2callers_%s_d%d%d_prio%d' % (tname, AWKIND[ak], dl[0], dl[1], pr),
                                        sig='durs: List[int], fails: List[bool], p1: int',
                                        pre=['len(durs) == 2 and len(fails) == 2 and all(0 <= d <= 2 for d in durs) and 0 <= p1 <= 160'],
                                        body='H.scen_ensure(%d, 2, %r, durs, fails, %d, False, %d, p1)' % (tg, dl, ak, pr),
                                        tier='thorough', timeout=6000, family='ensure', weight=5))
    if tier != 'thorough':
        out = [c for c in out if c.tier == 'quick']
    out.append(Cell(name='c17_stop_while_busy', sig='block: int, d: int, prio_idx: int, p1: int',
                    pre=['1 <= block <= 12 and 0 <= d <= 8 and 0 <= prio_idx <= 1 and 0 <= p1 <= 60'],
                    body='H.scen_stop_while_busy(block, d, prio_idx, p1)', tier=q, timeout=600, family='loop_in_thread', weight=2))
    # the target is borrowed twice, one caller after the other (the first awaitable may fail)
    for ak in (0, 1):
        out.append(Cell(name='c17_idle_sequential_%s' % AWKIND[ak], sig='fails: List[bool], prio_idx: int, p1: int',
                        pre=['len(fails) == 2 and 0 <= prio_idx <= 1 and 0 <= p1 <= 130'],
                        body='H.scen_ensure(0, 2, [0, 4], [1, 1], fails, %d, False, prio_idx, p1)' % ak, tier=q, timeout=900, family='ensure', weight=4))
    out.append(Cell(name='c17_two_starters', sig='prio_idx: int, p1: int, q1: int', pre=['0 <= prio_idx <= 1 and 0 <= p1 <= 80 and 0 <= q1 <= 2'],
                    body='H.scen_two_starters(prio_idx, p1, q1)', tier=q, timeout=600, family='loop_in_thread', weight=2))
    out.append(Cell(name='twin_c17', sig='p1: int', pre=['0 <= p1 <= 40'], body='H.twin(p1)', expect='refute', timeout=200, family='ensure'))
    return out


META = {'C17': {
    'explanation': 'ensure_aw / run_aw_threadsafe / loop_in_thread / _get_loop_lock from the current source in awaitable form; pool threads are logical '
                   'threads, caller loops and the target loop are real asyncio loops. Target state {idle, running via loop_in_thread, closed, the '
                   'caller\'s own}, awaitable kind {coroutine, task, future}, outcome, durations, arrival delays, priority order and the pre-emption '
                   'position are symbolic. Oracle: each caller gets exactly its awaitable\'s result / exception object, evaluated on the target loop; '
                   'run_forever never entered while running; loop_in_thread returns with the loop running, stop() with it stopped; every caller '
                   'whose awaitable finished has completed at quiescence; a closed target raises RuntimeError.',
    'functions': [('aiuti/asyncio.py', 'ensure_aw'), ('aiuti/asyncio.py', 'run_aw_threadsafe'), ('aiuti/asyncio.py', 'loop_in_thread'),
                  ('aiuti/asyncio.py', '_get_loop_lock'), ('aiuti/asyncio.py', '_aw_to_coro')],
    'bounds': '1-2 caller threads (+ the loop_in_thread starter), delays 0..2, durations 0..3, every single pre-emption position, all priority orders',
    'outside': '3 caller threads; more than one pre-emption; the 32-thread pool limit',
    'assumptions': ['statement-level atomicity (P2 locality rule)', 'ThreadPoolExecutor / threading.Lock / time.sleep are the stubs of vfw/vt',
                    'SimLoop mirrors CPython 3.12 _run_once; call_soon_threadsafe wakes an idle logical loop thread'],
}}


def conformance(prop):
    assert scen_ensure(0, 1, [0, 0], [1, 0], [False, False], 0, 0, 0, 0) == [], LAST_INFO
    assert scen_ensure(1, 1, [0, 0], [1, 0], [True, False], 0, 0, 0, 0) == [], LAST_INFO
    assert scen_ensure(2, 1, [0, 0], [0, 0], [False, False], 0, 0, 0, 0) == [], LAST_INFO
    assert scen_ensure(3, 1, [0, 0], [1, 0], [False, False], 0, 0, 0, 0) == [], LAST_INFO
