"""C01, C05, C06 - threadsafe_async_cache across event loops in several threads (Mode T).

`threadsafe_async_cache._wrapper` is loaded from /repo's current source with scheduling points at its
statements (P2, locality rule) and call dispatch (P3); every logical thread runs a *real* asyncio
loop (SimLoop = BaseEventLoop with its run loop written as a thread body); threading.Lock is VLock.

Scenario: thread A starts a call as a fire-and-forget task and lingers dA (so the computation may
still be pending when run_until_complete returns and the loop stops), then goes through a life-cycle
{asyncio.run-style shutdown, close without cancelling, left stopped}; threads B (two callers) and C
arrive after dB / dC.  Symbolic: life-cycle of A, which invocations fail, priority order, the
pre-emption position (and target), optionally which caller the harness cancels / times out and when.
Timing values come from the cell's grid (DESIGN 3.4) with one symbolic duration.
"""
import vfw.prelude  # noqa: F401
import asyncio as aio

from vfw.prelude import pick, tracing, refuel, reraise_engine, StepBound
from vfw.cells import Cell
from vfw import loader
from vfw.vt import world as vt
from vfw.vt import transform, stubs, simloop
from harness import c14 as C14

LAST_INFO = None
RAW = None

_TR = transform.Asyncify(lambda qual, n: qual.endswith('threadsafe_async_cache._wrapper'), local_rule=True)
M = loader.load('aiuti/asyncio.py', 'aiuti_asyncio_modeT_cache', extra_passes=[_TR],
                rebind={**stubs.MODE_T_REBIND, 'ThreadPoolExecutor': simloop.VExecutor, 'sleep': simloop.vsleep},
                class_bases={'DaemonTask': '_vf_SimTask'}, inject={'_vt': vt, '_vf_SimTask': simloop.SimTask})
try:
    M.DaemonTask.__del__ = lambda self: None
except Exception:  # noqa
    pass


class InvFail(ValueError):
    pass


class RetainingMap(dict):
    """a retaining MutableMapping that is not a plain dict (python-level __getitem__/__setitem__)"""

    def __getitem__(self, k):
        return dict.__getitem__(self, k)

    def __setitem__(self, k, v):
        dict.__setitem__(self, k, v)


def scenario(dA, dB, dC, dur, lifeA, failmask, prio_idx, p1, q1, *, nthreads=3, b_callers=2, cancel_who=-1, cancel_at=0,
             use_timeout=False, custom_map=False, p2=0, q2=0, trace=False, a_callers=1):
    """returns record dict (callers, inv, stops, result, now)"""
    refuel()
    nthreads = int(nthreads)
    prio = vt.permutation(nthreads, pick(prio_idx, [1, 1, 2, 6, 24][nthreads]))
    W = vt.World(prio=prio, preempts=[(p1, q1), (p2, q2)], trace=trace, max_steps=6000)
    inv = []
    callers = {}
    stops = []
    cache = RetainingMap() if custom_map else None
    overlap = []
    after_success = []
    frozen = []     # non-empty once the run is over: teardown effects are not outcomes

    async def f(k):
        loop = aio.get_running_loop()
        me = {'n': len(inv), 'loop': loop, 'start': W.now, 'end': None, 'ok': None, 'stops0': loop.stopped_count, 'task': aio.current_task()}
        for o in inv:
            if o['end'] is None and o['loop'].is_running() and o['loop'].stopped_count == o['stops0']:
                overlap.append((o['n'], me['n']))
        if any(o['ok'] for o in inv):
            after_success.append(me['n'])
        inv.append(me)
        try:
            if dur > 0:
                await aio.sleep(dur)
            if (failmask >> me['n']) & 1 if me['n'] < 3 else False:
                me['exc'] = InvFail(me['n'])
                raise me['exc']
            me['ok'] = True
            return ('v', me['n'])
        finally:
            me['end'] = W.now
            if me['ok'] is None:
                me['ok'] = False
    g = M.threadsafe_async_cache(f, cache=cache) if custom_map else M.threadsafe_async_cache(f)

    async def call(name, timeout=None):
        rec = {'name': name, 'arrive': W.now, 'done': None, 'out': None, 'task': aio.current_task(), 'loop': aio.get_running_loop(),
               'ninv0': len(inv)}
        callers[name] = rec
        try:
            if timeout is not None:
                rec['out'] = ('ok', await aio.wait_for(g(1), timeout))
            else:
                rec['out'] = ('ok', await g(1))
        except aio.CancelledError:
            if not frozen:
                rec['out'] = ('cancelled',)
                rec['done'] = W.now
            raise
        except aio.TimeoutError as e:
            rec['out'] = ('timeout', e)
        except BaseException as e:  # noqa
            reraise_engine(e)
            if isinstance(e, (GeneratorExit, KeyboardInterrupt, SystemExit)):
                raise
            if frozen:
                return
            rec['out'] = ('exc', e)
        if not frozen:
            rec['done'] = W.now

    loops = [simloop.SimLoop(n, W) for n in 'ABC'[:nthreads]]
    LA = loops[0]
    outs = [dict() for _ in loops]
    cancelled_by_harness = set()
    names = ['A', 'B1'] + (['B2'] if b_callers == 2 else []) + (['C'] if nthreads == 3 else []) + (['A2'] if a_callers == 2 else [])
    who = names[cancel_who] if 0 <= cancel_who < len(names) else None

    def arm_cancel(name, task):
        if who == name and not use_timeout:
            def _c():
                if not task.done():
                    cancelled_by_harness.add(name)
                    task.cancel()
            task.get_loop().call_later(cancel_at, _c)

    def tmo(name):
        return cancel_at if (who == name and use_timeout) else None

    def note_stop(loop):
        stops.append((loop, W.now))

    async def thread_A():
        async def main():
            t = aio.get_running_loop().create_task(call('A', tmo('A')))
            arm_cancel('A', t)
            if a_callers == 2:     # a second caller on the computing loop, parked on the computation's event
                t2 = aio.get_running_loop().create_task(call('A2', tmo('A2')))
                arm_cancel('A2', t2)
            await aio.sleep(dA)
        life = pick(lifeA, 3)

        async def window():
            note_stop(LA)
        if life == 0:
            await simloop.aio_run(LA, main, outs[0], window=window)
        elif life == 1:
            await simloop.manual_close_without_cancel(LA, main, outs[0])
            note_stop(LA)
        else:
            await simloop.manual_leave_stopped(LA, main, outs[0])
            note_stop(LA)

    def thread_X(L, d, nms, out):
        async def body():
            async def main():
                await aio.sleep(d)
                ts = []
                for nm in nms:
                    t = aio.get_running_loop().create_task(call(nm, tmo(nm)))
                    arm_cancel(nm, t)
                    ts.append(t)
                await aio.gather(*ts, return_exceptions=True)

            async def window():
                note_stop(L)
            await simloop.aio_run(L, main, out, window=window)
        return body()
    W.spawn('A', thread_A())
    W.spawn('B', thread_X(loops[1], dB, [n for n in names if n.startswith('B')], outs[1]))
    if nthreads == 3:
        W.spawn('C', thread_X(loops[2], dC, ['C'], outs[2]))
    r = W.run()
    # quiescence: tokens off, close whatever is left, deterministically
    frozen.append(True)
    end_state = {me['n']: me['end'] for me in inv}
    W.abandon_all()
    simloop.close_leftovers(loops)
    for L in loops:
        try:
            if not L.is_closed() and not L.is_running():
                L.close()
        except Exception:  # noqa
            pass
    for me in inv:       # invocations closed by the teardown did not end during the run
        if end_state.get(me['n']) is None:
            me['end'] = None
            me['ok'] = None
    return {'result': r, 'callers': callers, 'inv': inv, 'stops': stops, 'now': W.now, 'overlap': overlap,
            'after_success': after_success, 'cancelled_by_harness': cancelled_by_harness, 'who': who, 'use_timeout': use_timeout,
            'threads': [(t.name, t.done, t.status.kind, repr(t.exc)) for t in W.threads], 'outs': outs, 'names': names,
            'trace': W.trace, 'steps': W.steps, 'opportunities': W.opportunities, 'cache': cache}


# ------------------------------------------------------------------------------------------ oracles
def judge_c01(R):
    devs = []
    if R['overlap']:
        devs.append('two-invocations-in-progress-at-once')
    if R['after_success']:
        devs.append('invoked-again-after-successful-result')
    okv = [('v', o['n']) for o in R['inv'] if o['ok'] is True]
    for c in R['callers'].values():
        if c['out'] and c['out'][0] == 'ok':
            if okv and c['out'][1] != okv[0]:
                devs.append('caller-received-different-result')
            if not okv:
                devs.append('caller-received-uncomputed-result')
    for t in R['threads']:
        if 'StepBound' in t[3]:
            devs.append('busy-loop-without-suspension')
    return sorted(set(devs))


def _loop_death_events(R, c, a, d):
    """loop stop/close events during [a, d] that hit a loop hosting (or just finishing) an invocation"""
    n = 0
    for (l, ts) in R['stops']:
        if not (a <= ts <= d):
            continue
        for me in R['inv']:
            if me['loop'] is l and me['start'] <= ts and (me['end'] is None or me['end'] >= ts):
                n += 1
                break
    return n


def judge_c05(R):
    devs = []
    r = R['result']
    if r == 'deadlock':
        devs.append('callers-never-finish')
    elif r == 'stepbound':
        devs.append('spins-without-finishing')
    for t in R['threads']:
        if 'StepBound' in t[3]:
            devs.append('busy-loop-without-suspension')
    for name, c in R['callers'].items():
        if c['done'] is None:
            # a caller left pending on a loop that was abandoned (never shut down) is not judged
            L = c['loop']
            if any(l is L for l, _ in R['stops']) and not L.is_closed():
                continue
            if r == 'done' and L.is_closed():
                continue
            if 'callers-never-finish' not in devs and r != 'done':
                devs.append('callers-never-finish')
            continue
        # "finishes with a value, an exception or its caller's OWN cancellation": a cancellation nobody requested is none of these
        out = c.get('out')
        if out is not None and out[0] == 'cancelled' and name not in R['cancelled_by_harness'] \
                and not any(l is c['loop'] and ts <= c['done'] for l, ts in R['stops']):
            devs.append('caller-ended-by-a-cancellation-nobody-requested')
        a, d = c['arrive'], c['done']
        covered = []
        for me in R['inv']:
            s = me['start']
            e = me['end'] if me['end'] is not None else R['now']
            # "live": ends when its loop stops
            for (l, ts) in R['stops']:
                if l is me['loop'] and ts >= s and ts < e:
                    e = ts
            lo, hi = max(s, a), min(e, d)
            if lo < hi:
                covered.append((lo, hi))
        covered.sort()
        unc = 0
        t = a
        for lo, hi in covered:
            if lo > t:
                unc += lo - t
            t = max(t, hi)
        if d > t:
            unc += d - t
        s_events = _loop_death_events(R, c, a, d)
        if unc > 60 * s_events:
            devs.append('caller-stalled-beyond-safety-window' if s_events else 'caller-not-woken-when-computation-ended')
    return sorted(set(devs))


def judge_c06(R):
    devs = []
    for t in R['threads']:
        if 'StepBound' in t[3]:
            devs.append('busy-loop-without-suspension')
    okv = [('v', o['n']) for o in R['inv'] if o['ok'] is True]
    for name, c in R['callers'].items():
        out = c['out']
        if out is None:
            continue
        if out[0] == 'ok':
            if out[1] not in okv:
                devs.append('value-not-from-a-successful-invocation')
        elif out[0] == 'exc':
            e = out[1]
            mine = [o for o in R['inv'] if o.get('exc') is e]
            if isinstance(e, InvFail) and mine:
                if mine[0]['task'] is not c['task']:
                    devs.append('caller-received-another-calls-failure')
            else:
                devs.append('bookkeeping-exception-leaked:' + type(e).__name__)
        elif out[0] == 'cancelled':
            own_loop_shutdown = any(l is c['loop'] and ts <= c['done'] for l, ts in R['stops'])
            if name not in R['cancelled_by_harness'] and not own_loop_shutdown:
                devs.append('caller-cancelled-by-someone-elses-cancellation-or-shutdown')
        elif out[0] == 'timeout':
            if not (R['use_timeout'] and R['who'] == name):
                devs.append('spurious-timeout')
    # a failed / cancelled computation caches nothing
    if R['cache'] is not None and len(R['cache']) and not okv:
        devs.append('failed-computation-was-cached')
    return sorted(set(devs))


JUDGE = {'C01': judge_c01, 'C05': judge_c05, 'C06': judge_c06}


def scen(prop, dA, dB, dC, dur, lifeA, failmask, prio_idx, p1, q1, nthreads=3, b_callers=2, cancel_who=-1, cancel_at=0,
         use_timeout=False, custom_map=False, a_callers=1):
    global LAST_INFO, RAW
    R = scenario(dA, dB, dC, dur, lifeA, failmask, prio_idx, p1, q1, nthreads=nthreads, b_callers=b_callers, cancel_who=cancel_who,
                 cancel_at=cancel_at, use_timeout=use_timeout, custom_map=custom_map, trace=not tracing(), a_callers=a_callers)
    RAW = R
    devs = JUDGE[prop](R)
    if not tracing():
        LAST_INFO = {'args': dict(dA=dA, dB=dB, dC=dC, dur=dur, lifeA=lifeA, failmask=failmask, prio_idx=prio_idx, p1=p1, q1=q1,
                                  nthreads=nthreads, b_callers=b_callers, cancel_who=cancel_who, cancel_at=cancel_at, use_timeout=use_timeout),
                     'result': R['result'], 'now': R['now'],
                     'callers': {k: (v['arrive'], v['done'], repr(v['out'])) for k, v in R['callers'].items()},
                     'invocations': [(o['n'], o['loop'].name, o['start'], o['end'], o['ok']) for o in R['inv']],
                     'stops': [(l.name, t) for l, t in R['stops']], 'threads': R['threads'],
                     'overlap': R['overlap'], 'steps': R['steps'], 'opportunities': R['opportunities'],
                     'trace_tail': R['trace'][-40:] if R['trace'] else None}
    return devs


def twin(prop, lifeA, prio_idx, p1):
    """Reachability: a cross-loop wait happened and the computing loop stopped mid-computation."""
    R = scenario(1, 0, 0, 3, lifeA, 0, prio_idx, p1, 0, nthreads=2, b_callers=1)
    d = JUDGE[prop](R)
    if d:
        return []
    a = R['callers'].get('A')
    b = R['callers'].get('B1')
    took_over = len(R['inv']) >= 2
    return ['reached'] if took_over and b and b['out'] and b['out'][0] == 'ok' else []


# ------------------------------------------------------------------------------------------ cells
GRID_QUICK = [
    # (dA, dB, dC, dur)  : linger of A, arrivals of B and C, computation duration
    (5, 1, 2, 3),    # A alive throughout: B, C wait across loops and are woken
    (1, 0, 2, 3),    # A stops mid-computation, B already waiting, C arrives after
    (0, 0, 0, 0),    # zero-duration computation, everything at one instant
    (1, 1, 70, 2),   # A stops mid-computation just as B arrives; C arrives after the 60 s safety window
]
GRID_THOROUGH = GRID_QUICK + [(2, 1, 1, 2), (1, 2, 2, 3), (3, 0, 1, 1), (0, 1, 0, 2), (2, 3, 5, 3), (4, 4, 4, 4), (0, 2, 1, 0), (1, 0, 0, 1)]


def cells(prop, tier):
    out = []
    q = 'quick'
    lp = prop.lower()
    for gi, (dA, dB, dC, dur) in enumerate(GRID_THOROUGH if tier == 'thorough' else GRID_QUICK):
        tr = q if gi < len(GRID_QUICK) else 'thorough'
        # 2 threads (A, B with two callers), every single pre-emption; life-cycle of A fixed per cell
        for life in range(3):
            out.append(Cell(name='%s_2t_g%d_life%d' % (lp, gi, life), sig='failmask: int, prio_idx: int, p1: int',
                            pre=['0 <= failmask <= %d and 0 <= prio_idx <= 1 and 0 <= p1 <= 140' % (1 if tr == q else 3)],
                            body='H.scen(%r, %d, %d, %d, %d, %d, failmask, prio_idx, p1, 0, 2, 2)' % (prop, dA, dB, dC, dur, life),
                            tier=tr, timeout=900, family=lp, weight=4))
        # 3 threads, no pre-emption: every priority order
        out.append(Cell(name='%s_3t_k0_g%d' % (lp, gi), sig='lifeA: int, failmask: int, prio_idx: int',
                        pre=['0 <= lifeA <= 2 and 0 <= failmask <= 7 and 0 <= prio_idx <= 5'],
                        body='H.scen(%r, %d, %d, %d, %d, lifeA, failmask, prio_idx, 0, 0, 3, 2)' % (prop, dA, dB, dC, dur),
                        tier=tr, timeout=600, family=lp, weight=2))
    # take-over window: A stops at t=1 with the computation pending exactly when B arrives, C arrives during B's computation;
    # 3 threads, one pre-emption (position 0..70), priority order fixed per cell
    for pr in range(6):
        if prop == 'C05' and pr > 1 and tier != 'thorough':
            continue
        if prop == 'C06' and pr not in (0, 3) and tier != 'thorough':
            continue
        out.append(Cell(name='%s_3t_takeover_prio%d' % (lp, pr), sig='lifeA: int, p1: int, q1: int',
                        pre=['0 <= lifeA <= 1 and 0 <= p1 <= 70 and 0 <= q1 <= 1'],
                        body='H.scen(%r, 1, 1, 2, 3, lifeA, 0, %d, p1, q1, 3, 1)' % (prop, pr),
                        tier=q, timeout=900, family=lp, weight=5))
    # computation longer than the 60 s safety window on a healthy loop: waiters time out, look again and must keep waiting
    for fm in (0, 1):
        for pr in (0, 1):
            out.append(Cell(name='%s_2t_long_computation_f%d_prio%d' % (lp, fm, pr), sig='p1: int',
                            pre=['0 <= p1 <= 160'],
                            body='H.scen(%r, 70, 1, 1, 65, 0, %d, %d, p1, 0, 2, 2)' % (prop, fm, pr),
                            tier=q, timeout=900, family=lp, weight=6))
    if prop == 'C06' or prop == 'C05':
        for gi, (dA, dB, dC, dur) in enumerate(GRID_QUICK[:2]):
            for ut in (False, True):
                out.append(Cell(name='%s_cancel_g%d_%s' % (lp, gi, 'waitfor' if ut else 'cancel'),
                                sig='lifeA: int, cancel_who: int, cancel_at: int, prio_idx: int',
                                pre=['0 <= lifeA <= 2 and 0 <= cancel_who <= 2 and 0 <= cancel_at <= 4 and 0 <= prio_idx <= 1'],
                                body='H.scen(%r, %d, %d, %d, %d, lifeA, 0, prio_idx, 0, 0, 2, 2, cancel_who, cancel_at, %r)' % (prop, dA, dB, dC, dur, ut),
                                tier=q, timeout=600, family=lp, weight=2))
    # B and C both arrive the instant A's loop has stopped: both see the dead marker
    if prop in ('C01', 'C06'):
        for pr in (0, 2, 4):
            out.append(Cell(name='%s_3t_double_takeover_prio%d' % (lp, pr), sig='lifeA: int, p1: int, q1: int',
                            pre=['1 <= lifeA <= 2 and 0 <= p1 <= 90 and 0 <= q1 <= 1'],
                            body='H.scen(%r, 1, 1, 1, 3, lifeA, 0, %d, p1, q1, 3, 1)' % (prop, pr),
                            tier=q if pr == 0 else 'thorough', timeout=900, family=lp, weight=6))
    if prop in ('C06', 'C05'):
        # two callers on the computing loop (the second parked on the computation's event) while that loop stops / closes mid-computation
        for life in range(3):
            out.append(Cell(name='%s_2t_g1_two_callers_on_A_life%d' % (lp, life), sig='failmask: int, prio_idx: int, p1: int',
                            pre=['0 <= failmask <= 1 and 0 <= prio_idx <= 1 and 0 <= p1 <= 150'],
                            body='H.scen(%r, 1, 0, 2, 3, %d, failmask, prio_idx, p1, 0, 2, 1, -1, 0, False, False, 2)' % (prop, life),
                            tier=q, timeout=900, family=lp, weight=4))
    if prop == 'C06':
        # a caller-supplied mapping that loses entries between two of the wrapper's own operations: never a bookkeeping exception
        out.append(Cell(name='c06_evicting_mapping', sig='a: int, b: int, n: int', pre=['1 <= n <= 14'], body='H.C14.scen_evict_during(a, b, n)',
                        tier=q, timeout=170, family=lp))
    if prop == 'C01':
        out.append(Cell(name='c01_custom_map_g1', sig='lifeA: int, failmask: int, prio_idx: int, p1: int',
                        pre=['0 <= lifeA <= 2 and 0 <= failmask <= 1 and 0 <= prio_idx <= 1 and 0 <= p1 <= 140'],
                        body='H.scen(%r, 1, 0, 2, 3, lifeA, failmask, prio_idx, p1, 0, 2, 2, -1, 0, False, True)' % prop,
                        tier='thorough', timeout=900, family=lp, weight=4))
    if tier != 'thorough':
        out = [c for c in out if c.tier == 'quick']
    out.append(Cell(name='twin_%s' % lp, sig='lifeA: int, prio_idx: int, p1: int', pre=['0 <= lifeA <= 2 and 0 <= prio_idx <= 1 and 0 <= p1 <= 3'],
                    body='H.twin(%r, lifeA, prio_idx, p1)' % prop, expect='refute', timeout=300, family=lp))
    if tier == 'thorough':
        for gi, (dA, dB, dC, dur) in enumerate(GRID_QUICK):
            out.append(Cell(name='%s_3t_k1_g%d' % (lp, gi), sig='lifeA: int, prio_idx: int, p1: int, q1: int',
                            pre=['0 <= lifeA <= 2 and 0 <= prio_idx <= 5 and 1 <= p1 <= 200 and 0 <= q1 <= 1'],
                            body='H.scen(%r, %d, %d, %d, %d, lifeA, 0, prio_idx, p1, q1, 3, 1)' % (prop, dA, dB, dC, dur),
                            tier='thorough', timeout=6000, family=lp, weight=5))
    return out


_FUNCS = [('aiuti/asyncio.py', 'threadsafe_async_cache'), ('aiuti/asyncio.py', 'threadsafe_async_cache._wrapper')]
_ASSUME = ['statement-level atomicity with the P2 locality rule (no scheduling point before statements that only touch local names)',
           'threading.Lock is the VLock stub; event loops are stock BaseEventLoop objects whose run loop is a logical-thread body '
           '(SimLoop/SimTask mirror CPython 3.12 _run_once / Task.__step; checked by the conformance run)',
           'virtual integer clock shared by all loops; a loop that has returned from run_forever counts as stopped',
           'context-bounded schedules: every priority order and every position of <= k pre-emptions (k=1 quick)']


def _meta(what):
    return {'explanation': 'threadsafe_async_cache._wrapper from the current source (scheduling points inserted at load time) is run by 2-3 logical '
                           'threads, each with its own real asyncio loop, under every priority order and every single pre-emption position; loop '
                           'life-cycle of the computing thread (asyncio.run-style shutdown / close without cancel / left stopped), failing '
                           'invocations and the cancelled caller are symbolic; arrival delays, linger and computation duration come from the '
                           'cell grid (each combination its own cell). In these cells a path is essentially one schedule: the solver contributes '
                           'the exhaustion of the choice tree. ' + what,
            'functions': _FUNCS,
            'bounds': 'quick: 4 timing combinations x {2 threads with 3 callers under every single pre-emption; 3 threads with 4 callers without '
                      'pre-emption under all 6 priority orders}, 3 life-cycles, failure subsets of the first 2-3 invocations; thorough: 12 timing '
                      'combinations, 3 threads with one pre-emption, custom retaining mapping; also in quick: take-over and double take-over windows with 3 threads and one pre-emption, a computation longer than the 60 s window, two callers on the computing loop, a supplied mapping that loses entries between two wrapper operations (C06)',
            'outside': '4 threads; more than one pre-emption in quick, more than 2 anywhere; bytecode-level races; restarting a loop that stopped with a call pending',
            'assumptions': _ASSUME}


META = {
    'C01': _meta('Oracle (harness-owned wrapped function): on entry no other invocation of the key is in progress on a loop that is running and has '
                 'not stopped since that invocation began; after a successful return no further entry, every returning caller gets that value.'),
    'C05': _meta('Oracle in virtual time: every caller finishes; the part of its pending time not covered by a live invocation is at most 60 x the '
                 'number of loop-death events that hit a computing loop during its life (0 when the computing loop stays alive).'),
    'C06': _meta('Oracle: each caller ends with the value of a successful invocation, or the exception object raised by an invocation its own task '
                 'performed, or cancellation only if the harness cancelled it / its own loop was shut down with it pending; nothing else.'),
}


def conformance(prop):
    # the repository's doctest program in miniature: 3 loops x callers, one "Squaring"
    R = scenario(5, 0, 0, 2, 0, 0, 0, 0, 0, nthreads=3, b_callers=2)
    assert R['result'] == 'done', R['threads']
    assert len(R['inv']) == 1 and all(c['out'] == ('ok', ('v', 0)) for c in R['callers'].values()), (R['inv'], R['callers'])
    # test_canceling in miniature: caller cancelled while waiting does not hang anything
    R = scenario(5, 0, 0, 3, 0, 0, 0, 0, 0, nthreads=2, b_callers=2, cancel_who=1, cancel_at=1)
    assert R['result'] == 'done', R['threads']
