"""C16 - to_async_iter / to_sync_iter preserve the sequence, propagate errors, do not block the loop,
leave no helper thread (Mode T: the helper threads are logical threads).

to_async_iter, to_sync_iter and their nested helpers are loaded from the current source in awaitable
form (P2 points, P3 call dispatch, `for` -> `async for _vt.aiter_`, `with` -> `async with`);
ThreadPoolExecutor is the logical-thread executor, queue.Queue the VQueue stub, asyncio the real library
on SimLoops.  Symbolic: source length and element indices, failure position, producer step duration,
thread priority order, pre-emption position.
"""
import vfw.prelude  # noqa: F401
import asyncio as aio

from vfw.prelude import pick, tracing, refuel, reraise_engine, StepBound
from vfw.cells import Cell
from vfw import loader
from vfw.vt import world as vt
from vfw.vt import transform, stubs, simloop

LAST_INFO = None
RAW = None

_NAMES = ('to_async_iter', 'to_sync_iter')
_TR = transform.Asyncify(lambda qual, n: qual.split('.')[0] in _NAMES, local_rule=True,
                         want_gen=lambda qual: qual == 'to_sync_iter')
M = loader.load('aiuti/asyncio.py', 'aiuti_asyncio_modeT_iter', extra_passes=[_TR],
                rebind={**stubs.MODE_T_REBIND, 'ThreadPoolExecutor': simloop.VExecutor, 'sleep': simloop.vsleep,
                        'queue': simloop.VQueueModule},
                class_bases={'DaemonTask': '_vf_SimTask'}, inject={'_vt': vt, '_vf_SimTask': simloop.SimTask})
try:
    M.DaemonTask.__del__ = lambda self: None
except Exception:  # noqa
    pass
aio.set_event_loop_policy(simloop.SimPolicy())

ELEMS = (None, 0, ValueError('an element, not a failure'), '', 1, 1, 'x', False)


class SrcError(KeyError):
    pass


class BlockingSource:
    """one-shot synchronous iterator whose __next__ blocks its (logical) thread for `step` ticks"""

    def __init__(self, items, failpos, step, exc, log):
        self.items = items
        self.failpos = failpos
        self.step = step
        self.exc = exc
        self.i = 0
        self.log = log

    def __iter__(self):
        return self

    @vt.mark
    async def __next__(self):
        w = vt.CUR['w']
        if self.step > 0:
            await vt.Tok('sleep', w.now + self.step)
        i = self.i
        if i == self.failpos:
            self.i += 1
            raise self.exc
        if i >= len(self.items):
            raise vt.EndOfIteration
        self.i += 1
        self.log.append(('next', i, w.now))
        return self.items[i]


def scen_async(n, failpos, step, kind, prio_idx, p1, big=0, slow=0):
    """consume to_async_iter(source) on a loop thread, with a ticker task on the same loop.
    big > 0: a source of n = big elements (concrete length); slow: the consumer sleeps `slow` ticks after its first element,
    so that a never-blocking producer runs arbitrarily far ahead of it."""
    global LAST_INFO, RAW
    refuel()
    n = big if big else pick(n, 5)
    kind = pick(kind, 3)
    items = [ELEMS[i % len(ELEMS)] for i in range(n)]
    W = vt.World(prio=vt.permutation(2, pick(prio_idx, 2)), preempts=[(p1, 0)], max_steps=6000 + 40 * n, trace=not tracing())
    L = simloop.SimLoop('C', W)
    exc = SrcError('src')
    log = []
    got = []
    res = {}
    ticks = []
    if kind == 0:
        src = BlockingSource(items, failpos, step, exc, log)   # iterator -> helper thread
    elif kind == 1:
        def gen():
            for i, x in enumerate(items):
                if i == failpos:
                    raise exc
                yield x
            if failpos == len(items):
                raise exc
        src = gen()                                            # generator (iterator) -> helper thread, never blocks
    else:
        class Iterable:                                        # re-iterable, not an iterator -> inline path
            def __iter__(self_inner):
                def g():
                    for i, x in enumerate(items):
                        if i == failpos:
                            raise exc
                        yield x
                    if failpos == len(items):
                        raise exc
                return g()
        src = Iterable()

    async def main():
        async def ticker():
            while True:
                ticks.append(W.now)
                await aio.sleep(1)
        tk = aio.get_running_loop().create_task(ticker())
        try:
            async for x in M.to_async_iter(src):
                got.append(x)
                if slow and len(got) == 1:
                    await aio.sleep(slow)
            res['end'] = ('stop', None)
        except BaseException as e:  # noqa
            reraise_engine(e)
            if isinstance(e, (aio.CancelledError, GeneratorExit, KeyboardInterrupt, SystemExit)):
                raise
            res['end'] = ('exc', e)
        res['done_at'] = W.now
        tk.cancel()
    out = {}
    W.spawn('C', simloop.aio_run(L, main, out))
    r = W.run()
    workers = [t for t in W.threads if t.name.startswith('worker')]
    alive_workers = [t.name for t in workers if not t.done]
    W.abandon_all()
    simloop.close_leftovers([L])
    fails = 0 <= failpos <= n
    expected = items[:failpos] if fails else items
    devs = []
    if r != 'done':
        devs.append('consumer-never-finishes' if r == 'deadlock' else 'schedule-does-not-terminate')
    else:
        if got != expected or any(a is not b for a, b in zip(got, expected)):
            if len(got) < len(expected):
                devs.append('elements-missing')
            elif got[:len(expected)] == expected:
                devs.append('extra-or-duplicated-elements')
            else:
                devs.append('wrong-elements-or-order')
        end = res.get('end')
        if fails:
            if end is None or end[0] != 'exc':
                devs.append('source-error-swallowed')
            elif end[1] is not exc:
                devs.append('different-exception-raised:' + type(end[1]).__name__)
        elif end is None or end[0] != 'stop':
            devs.append('unexpected-exception:' + (type(end[1]).__name__ if end else 'none'))
        if alive_workers:
            devs.append('helper-thread-left-running')
        # loop responsiveness: while the producer was blocked the ticker kept ticking (one tick per unit)
        if kind == 0 and step > 0 and res.get('done_at') is not None:
            need = res['done_at']
            if len([t for t in ticks if t < need]) < need:
                devs.append('event-loop-blocked-while-producer-blocked')
    for t in W.threads:
        if t.exc is not None:
            devs.append('thread-raised:' + type(t.exc).__name__)
    RAW = {'result': r, 'got': got, 'workers': len(workers)}
    if not tracing():
        LAST_INFO = {'items': items, 'failpos': failpos, 'step': step, 'kind': ('iterator', 'generator', 'iterable')[kind], 'result': r,
                     'got': got, 'end': repr(res.get('end')), 'done_at': res.get('done_at'), 'ticks': ticks[:12], 'alive_workers': alive_workers,
                     'threads': [(t.name, t.done, t.status.kind, repr(t.exc)) for t in W.threads], 'trace_tail': W.trace[-30:] if W.trace else None}
    return sorted(set(devs))


def scen_sync(n, failpos, step, own_loop, prio_idx, p1):
    """consume to_sync_iter(async generator) from a plain (logical) thread"""
    global LAST_INFO, RAW
    refuel()
    n = pick(n, 5)
    items = [ELEMS[i % len(ELEMS)] for i in range(n)]
    W = vt.World(prio=vt.permutation(2, pick(prio_idx, 2)), preempts=[(p1, 0)], max_steps=6000, trace=not tracing())
    exc = SrcError('src')
    got = []
    res = {}
    seen_loop = []

    async def agen():
        for i, x in enumerate(items):
            if step > 0:
                await aio.sleep(step)
            if i == failpos:
                raise exc
            seen_loop.append(aio.get_running_loop())
            yield x
        if failpos == len(items):
            raise exc
    given = simloop.SimLoop('G', W) if own_loop else None

    async def consumer():
        try:
            if given is not None:
                it = M.to_sync_iter(agen(), loop=given)
            else:
                it = M.to_sync_iter(agen())
            async for x in it:
                got.append(x)
            res['end'] = ('stop', None)
        except BaseException as e:  # noqa
            reraise_engine(e)
            if isinstance(e, (GeneratorExit, KeyboardInterrupt, SystemExit)):
                raise
            res['end'] = ('exc', e)
    W.spawn('K', consumer())
    r = W.run()
    workers = [t for t in W.threads if t.name.startswith('worker')]
    alive_workers = [t.name for t in workers if not t.done]
    W.abandon_all()
    fails = 0 <= failpos <= n
    expected = items[:failpos] if fails else items
    devs = []
    if r != 'done':
        devs.append('consumer-never-finishes' if r == 'deadlock' else 'schedule-does-not-terminate')
    else:
        if got != expected or any(a is not b for a, b in zip(got, expected)):
            if len(got) < len(expected):
                devs.append('elements-missing')
            elif got[:len(expected)] == expected:
                devs.append('extra-or-duplicated-elements')
            else:
                devs.append('wrong-elements-or-order')
        end = res.get('end')
        if fails:
            if end is None or end[0] != 'exc':
                devs.append('source-error-swallowed')
            elif end[1] is not exc:
                devs.append('different-exception-raised:' + type(end[1]).__name__)
        elif end is None or end[0] != 'stop':
            devs.append('unexpected-exception:' + (type(end[1]).__name__ if end else 'none'))
        if alive_workers:
            devs.append('helper-thread-left-running')
        if given is not None and any(l is not given for l in seen_loop):
            devs.append('iterated-on-a-different-loop-than-given')
    for t in W.threads:
        if t.exc is not None:
            devs.append('thread-raised:' + type(t.exc).__name__)
    RAW = {'result': r, 'got': got, 'workers': len(workers)}
    if not tracing():
        LAST_INFO = {'items': items, 'failpos': failpos, 'step': step, 'own_loop': bool(own_loop), 'result': r, 'got': got,
                     'end': repr(res.get('end')), 'alive_workers': alive_workers,
                     'threads': [(t.name, t.done, t.status.kind, repr(t.exc)) for t in W.threads], 'trace_tail': W.trace[-30:] if W.trace else None}
    return sorted(set(devs))


def twin(which, p1):
    """Reachability: a helper thread really ran concurrently and was pre-empted mid-way."""
    d = scen_async(3, -1, 1, 0, 0, p1) if which == 0 else scen_sync(3, -1, 1, False, 0, p1)
    if d:
        return []
    return ['reached'] if RAW['workers'] >= 1 and len(RAW['got']) == 3 and p1 >= 2 else []


def cells(prop, tier):
    out = []
    q = 'quick'
    for kind in range(3):
        for n in range(4):
            if kind == 2 and n not in (0, 3):
                continue
            out.append(Cell(name='c16_async_%s_n%d' % (('iterator', 'generator', 'iterable')[kind], n), sig='failpos: int, step: int, prio_idx: int, p1: int',
                            pre=['-1 <= failpos <= %d and 0 <= step <= 2 and 0 <= prio_idx <= 1 and 0 <= p1 <= 90' % n],
                            body='H.scen_async(%d, failpos, step, %d, prio_idx, p1)' % (n, kind), tier=q, timeout=900, family='async', weight=2 + n))
    for own in (False, True):
        out.append(Cell(name='c16_sync_%s' % ('given_loop' if own else 'new_loop'), sig='n: int, failpos: int, step: int, prio_idx: int, p1: int',
                        pre=['0 <= n <= 3 and -1 <= failpos <= n and 0 <= step <= 1 and 0 <= prio_idx <= 1 and 0 <= p1 <= 90'],
                        body='H.scen_sync(n, failpos, step, %r, prio_idx, p1)' % own, tier=q, timeout=900, family='sync', weight=3))
    # long source, consumer far behind a never-blocking producer (read-ahead limits, dropped hand-overs): concrete length, symbolic
    # failure position class (none / after the last / at the last element), consumer delay, source kind and thread priority
    for big in ((1100,) if tier != 'thorough' else (1100, 4200)):
        for kind in range(2):
            for fs, fp in enumerate((-1, big, big - 1)):
                out.append(Cell(name='c16_async_long_%s_n%d_f%d' % (('iterator', 'generator')[kind], big, fs), sig='slow: int, prio_idx: int',
                                pre=['1 <= slow <= 2 and 0 <= prio_idx <= 1'],
                                body='H.scen_async(0, %d, 0, %d, prio_idx, -1, %d, slow)' % (fp, kind, big),
                                tier=q if big == 1100 else 'thorough', timeout=600 if big == 1100 else 3000, family='async', weight=4))
    out.append(Cell(name='twin_c16_async', sig='p1: int', pre=['0 <= p1 <= 30'], body='H.twin(0, p1)', expect='refute', timeout=200, family='async'))
    out.append(Cell(name='twin_c16_sync', sig='p1: int', pre=['0 <= p1 <= 30'], body='H.twin(1, p1)', expect='refute', timeout=200, family='sync'))
    if tier == 'thorough':
        for kind in range(2):
            out.append(Cell(name='c16_async_%s_n4' % ('iterator', 'generator')[kind], sig='failpos: int, step: int, prio_idx: int, p1: int',
                            pre=['-1 <= failpos <= 4 and 0 <= step <= 3 and 0 <= prio_idx <= 1 and 0 <= p1 <= 160'],
                            body='H.scen_async(4, failpos, step, %d, prio_idx, p1)' % kind, tier='thorough', timeout=4000, family='async', weight=3))
        out.append(Cell(name='c16_sync_n4', sig='failpos: int, step: int, own: bool, prio_idx: int, p1: int',
                        pre=['-1 <= failpos <= 4 and 0 <= step <= 2 and 0 <= prio_idx <= 1 and 0 <= p1 <= 160'],
                        body='H.scen_sync(4, failpos, step, own, prio_idx, p1)', tier='thorough', timeout=4000, family='sync', weight=3))
    return out


META = {'C16': {
    'explanation': 'to_async_iter / to_sync_iter and their nested helpers from the current source in awaitable form; the helper threads they start '
                   '(ThreadPoolExecutor) are logical threads, the consuming loop and the helper loop are real asyncio loops (SimLoop). Source length, '
                   'failure position, producer step duration, thread priority and the pre-emption position are symbolic. Oracle: consumed sequence = '
                   'prefix before the failure (identity of elements incl. None/0/\'\'/False/duplicates), then the very same exception object; a '
                   'ticker task on the consuming loop ticks once per time unit while the producer blocks; no helper thread alive at the end.',
    'functions': [('aiuti/asyncio.py', 'to_async_iter'), ('aiuti/asyncio.py', 'to_sync_iter')],
    'bounds': 'quick: sources of length 0..3 as blocking iterator / generator / re-iterable and async generator, failure at every position or none, '
              'step duration 0..2, both priority orders, every single pre-emption position; plus one concrete long source (1100 elements, consumer '
              'sleeping 1..2 ticks after its first element, failure none / at the last / after the last element, no pre-emption); thorough: length 4, '
              'step 0..3, long source of 4200',
    'outside': 'length > 4 with symbolic failure position or pre-emption; long sources other than the two concrete lengths; more than one pre-emption; bytecode-level races in the hand-off queue',
    'assumptions': ['statement-level atomicity (P2 locality rule)', 'ThreadPoolExecutor/queue.Queue/concurrent Future.result are stubs with the contracts '
                    'of vfw/vt (submit starts a logical thread; shutdown(wait) blocks until workers finish)', 'SimLoop mirrors CPython 3.12 _run_once'],
}}


def conformance(prop):
    assert scen_async(3, -1, 1, 0, 0, 0) == [], LAST_INFO
    assert scen_async(3, 2, 0, 1, 0, 0) == [], LAST_INFO
    assert scen_async(2, -1, 0, 2, 0, 0) == [], LAST_INFO
    assert scen_sync(3, -1, 1, False, 0, 0) == [], LAST_INFO
    assert scen_sync(2, 1, 0, True, 0, 0) == [], LAST_INFO
