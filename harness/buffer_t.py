"""C03 / C07, foreign-thread part (Mode T): submissions and wait_from_anywhere() from threads other than
the buffer's loop thread.

BufferAsyncCalls methods, ensure_aw and run_aw_threadsafe are loaded from the current source with
scheduling points (P2, locality rule) and call dispatch (P3); the buffer's loop and the foreign caller's
loop are real asyncio loops (SimLoop) run by logical threads.  Symbolic: submission delays, function
duration and first-invocation failure, priority order, pre-emption position.
"""
import vfw.prelude  # noqa: F401
import asyncio as aio

from vfw.prelude import pick, tracing, refuel, reraise_engine
from vfw.cells import Cell
from vfw import loader
from vfw.vt import world as vt
from vfw.vt import transform, stubs, simloop

LAST_INFO = None
RAW = None
T = 10

_CLS = ('BufferAsyncCalls',)
_FUN = ('ensure_aw', 'run_aw_threadsafe', '_get_loop_lock')


def _want(qual, node):
    head = qual.split('.')[0]
    if head in _FUN:
        return True
    return head in _CLS and node.name not in ('__init__', '_empty_queue')


_TR = transform.Asyncify(_want, local_rule=True)
M = loader.load('aiuti/asyncio.py', 'aiuti_asyncio_modeT_buffer', extra_passes=[_TR],
                rebind={**stubs.MODE_T_REBIND, 'ThreadPoolExecutor': simloop.VExecutor, 'sleep': simloop.vsleep},
                class_bases={'DaemonTask': '_vf_SimTask'}, inject={'_vt': vt, '_vf_SimTask': simloop.SimTask})
try:
    M.DaemonTask.__del__ = lambda self: None
except Exception:  # noqa
    pass
aio.set_event_loop_policy(simloop.SimPolicy())


class FuncError(ValueError):
    pass


def scenario(d1, d2, dur, fail0, use_wait, cancel, own_first, prio_idx, p1, q1=0, nforeign=1, p2=0, tail=0, blk=0, single=False):
    """Loop thread L owns the buffer (timeout T) and optionally submits one argument itself at t=0;
    foreign thread F submits 100 after d1 and 101 after a further d2, then (use_wait) calls
    wait_from_anywhere(cancel=cancel) from its own loop; a second foreign thread G (nforeign=2) submits 200 at d2."""
    refuel()
    try:
        M._LOOP_LOCKS.clear()
        M._CROSS_LOOP_POOL.workers = []
    except Exception:  # noqa
        pass
    nth = 1 + nforeign
    W = vt.World(prio=vt.permutation(nth, pick(prio_idx, [1, 1, 2, 6][nth])), preempts=[(p1, q1), (p2, 0)], max_steps=8000, trace=not tracing())
    L = simloop.SimLoop('L', W)
    FL = simloop.SimLoop('F', W)
    inv = []
    subs = []
    box = {}
    running = [0]
    overlap = [False]
    frozen = []

    async def f(s):
        n = len(inv)
        rec = {'start': W.now, 'set': set(s), 'ok': None, 'end': None}
        inv.append(rec)
        if running[0]:
            overlap[0] = True
        running[0] += 1
        try:
            if dur > 0:
                await aio.sleep(dur)
            if n == 0 and tail > 0:
                # the loop thread is busy with synchronous work: first the tail of this call, then an unrelated callback that was
                # queued before anything a foreign thread submits during the tail
                if gate[0] is not None and not gate[0].done():
                    gate[0].set_result(None)
                await vt.Tok('sleep', W.now + tail)
        finally:
            running[0] -= 1
            if not frozen:
                rec['end'] = W.now
        if n == 0 and fail0:
            rec['ok'] = False
            raise FuncError(n)
        rec['ok'] = True

    ready = {'b': None}
    gate = [None]

    async def busy():
        await gate[0]
        await vt.Tok('sleep', W.now + blk)      # a token inside a task step blocks the whole loop thread: synchronous work

    async def loop_thread():
        aio.set_event_loop(L)

        async def main():
            b = M.BufferAsyncCalls(f, timeout=T)
            ready['b'] = b
            if blk > 0:
                gate[0] = aio.get_running_loop().create_future()
                aio.get_running_loop().create_task(busy())
            if own_first:
                subs.append((W.now, 0, 'own'))
                await vt.call(b, 0)
            await aio.sleep(6 * T + 3 * dur + d1 + d2 + 5)
        await simloop.manual_leave_stopped(L, main, box.setdefault('L', {}))

    def delivered_by(t):
        d = set()
        for r in inv:
            if r['ok'] and r['end'] is not None and r['end'] <= t:
                d |= r['set']
        return d

    async def foreign():
        await vt.Tok('blocked', lambda: ready['b'] is not None)
        b = ready['b']
        if d1 > 0:
            await vt.Tok('sleep', W.now + d1)
        subs.append((W.now, 100, 'foreign'))
        await vt.call(b, 100)
        if d2 > 0:
            await vt.Tok('sleep', W.now + d2)
        if not single:
            subs.append((W.now, 101, 'foreign'))
            await vt.call(b.map, [101])
        if use_wait:
            before = set(x for _, x, k in subs if k == 'foreign' and x < 200)

            async def fmain():
                await b.wait_from_anywhere(cancel=cancel)
                box['wait_returned_at'] = W.now
                box['missing_at_return'] = sorted(before - delivered_by(W.now))
            try:
                await FL.run_until_complete(fmain())
            except BaseException as e:  # noqa
                reraise_engine(e)
                box['wait_exc'] = e

    async def foreign2():
        await vt.Tok('blocked', lambda: ready['b'] is not None)
        b = ready['b']
        if d2 > 0:
            await vt.Tok('sleep', W.now + d2)
        subs.append((W.now, 200, 'foreign'))
        await vt.call(b, 200)
    W.spawn('L', loop_thread())
    W.spawn('F', foreign())
    if nforeign == 2:
        W.spawn('G', foreign2())
    r = W.run()
    frozen.append(True)
    threads = [(t.name, t.done, t.status.kind, repr(t.exc)) for t in W.threads]
    W.abandon_all()
    simloop.close_leftovers([L, FL])
    return {'result': r, 'inv': inv, 'subs': subs, 'box': box, 'overlap': overlap[0], 'threads': threads, 'now': W.now,
            'trace': W.trace, 'use_wait': use_wait}


def judge(prop, R):
    devs = []
    for t in R['threads']:
        if 'StepBound' in t[3]:
            devs.append('busy-loop-without-suspension')
        elif t[3] != 'None':
            devs.append('thread-raised:' + t[3].split('(')[0])
    if R['result'] == 'stepbound':
        devs.append('schedule-does-not-terminate')
    okinv = [r for r in R['inv'] if r['ok']]
    delivered = set()
    for r in okinv:
        delivered |= r['set']
    submitted = set(x for _, x, _ in R['subs'])
    if prop == 'C03':
        if R['result'] == 'done' or R['result'] == 'deadlock':
            if submitted - delivered and not (R['use_wait'] and R['result'] == 'deadlock'):
                devs.append('argument-from-foreign-thread-lost' if any(x >= 100 for x in submitted - delivered) else 'argument-lost')
        for r in R['inv']:
            if r['set'] - submitted:
                devs.append('function-received-unsubmitted-argument')
        own = [x for _, x, k in R['subs'] if k == 'own']
        for x in own:
            if sum(1 for r in okinv if x in r['set']) > 1:
                devs.append('argument-delivered-to-two-successful-calls')
    else:
        if R['use_wait']:
            if R['result'] == 'deadlock' or 'wait_returned_at' not in R['box']:
                if 'wait_exc' in R['box']:
                    devs.append('wait_from_anywhere-raised:' + type(R['box']['wait_exc']).__name__)
                else:
                    devs.append('wait_from_anywhere-never-returns')
            elif R['box'].get('missing_at_return'):
                devs.append('wait_from_anywhere-returned-before-earlier-submission-was-delivered')
    return sorted(set(devs))


def scen(prop, d1, d2, dur, fail0, use_wait, cancel, own_first, prio_idx, p1, q1=0, nforeign=1, p2=0, tail=0, blk=0, single=False):
    global LAST_INFO, RAW
    R = scenario(d1, d2, dur, fail0, use_wait, cancel, own_first, prio_idx, p1, q1, nforeign, p2, tail, blk, single)
    RAW = R
    devs = judge(prop, R)
    if not tracing():
        LAST_INFO = {'args': dict(d1=d1, d2=d2, dur=dur, fail0=fail0, use_wait=use_wait, cancel=cancel, own_first=own_first, prio_idx=prio_idx, p1=p1),
                     'result': R['result'], 'subs': R['subs'], 'invocations': [(r['start'], sorted(r['set']), r['ok'], r['end']) for r in R['inv']],
                     'box': {k: (repr(v) if k == 'wait_exc' else v) for k, v in R['box'].items() if k != 'L'}, 'threads': R['threads'],
                     'trace_tail': R['trace'][-30:] if R['trace'] else None}
    return devs


def twin(prop, d1, p1):
    """Reachability: a foreign submission landed while the function was running and was still delivered."""
    R = scenario(d1, 0, 4, False, prop == 'C07', True, True, 0, p1)
    if judge(prop, R):
        return []
    hit = any(r['start'] <= t < (r['end'] or 0) for (t, x, k) in R['subs'] if k == 'foreign' for r in R['inv'])
    return ['reached'] if hit and len(R['inv']) >= 2 else []


def cells(prop, tier):
    out = []
    q = 'quick'
    lp = prop.lower()
    uw = prop == 'C07'
    from harness.batcher import parts, product_pre
    for own in ((True,) if uw else (True, False)):
        for cancel in ((True, False) if uw else (True,)):
            # quick: fixed function duration and priority order, every single pre-emption, arrival delay partitioned around the timeout
            for sfx, pre in product_pre([parts('d1', [(0, 8), (9, 9), (10, 10), (11, 11), (12, 14)])]):
                out.append(Cell(name='%s_foreign_own%d_cancel%d_p%s' % (lp, own, cancel, sfx), sig='d1: int, d2: int, p1: int',
                                pre=[pre, '0 <= d2 <= 1 and 0 <= p1 <= 110'],
                                body='H.scen(%r, d1, d2, 2, False, %r, %r, %r, 0, p1)' % (prop, uw, cancel, own),
                                tier=q, timeout=900, family=lp + '_foreign', weight=5))
            # thorough: symbolic duration, failing first invocation, both priority orders
            for pr in (0, 1):
                for sfx, pre in product_pre([parts('d1', [(0, 8), (9, 11), (12, 14)]), parts('dur', [(0, 1), (2, 3)])]):
                    out.append(Cell(name='%s_foreign_full_own%d_cancel%d_prio%d_p%s' % (lp, own, cancel, pr, sfx),
                                    sig='d1: int, d2: int, dur: int, fail0: bool, p1: int',
                                    pre=[pre, '0 <= d2 <= 2 and 0 <= p1 <= 130'],
                                    body='H.scen(%r, d1, d2, dur, fail0, %r, %r, %r, %d, p1)' % (prop, uw, cancel, own, pr),
                                    tier='thorough', timeout=4000, family=lp + '_foreign', weight=5))
    if uw:
        # the buffer's loop is busy with synchronous work when the running call ends; the foreign thread submits during that work and waits
        for cancel in (True, False):
            out.append(Cell(name='%s_foreign_busy_loop_cancel%d' % (lp, cancel), sig='d1: int, d2: int, tail: int, blk: int, prio_idx: int',
                            pre=['10 <= d1 <= 16 and 0 <= d2 <= 6 and 1 <= tail <= 3 and 1 <= blk <= 6 and 0 <= prio_idx <= 1'],
                            body='H.scen(%r, d1, d2, 1, False, True, %r, True, prio_idx, 0, 0, 1, 0, tail, blk, True)' % (prop, cancel),
                            tier=q, timeout=900, family=lp + '_foreign', weight=4))
    if tier != 'thorough':
        out = [c for c in out if c.tier == 'quick']
    out.append(Cell(name='twin_%s_foreign' % lp, sig='d1: int, p1: int', pre=['0 <= d1 <= 14 and 0 <= p1 <= 3'],
                    body='H.twin(%r, d1, p1)' % prop, expect='refute', timeout=300, family=lp + '_foreign'))
    if tier == 'thorough' and uw:
        # two pre-emptions around the instant the running invocation ends (foreign submission at that very instant)
        for lo in range(1, 100, 12):
            out.append(Cell(name='%s_foreign_k2_p%02d' % (lp, lo), sig='d1: int, d2: int, p1: int, p2: int, prio_idx: int',
                            pre=['11 <= d1 <= 12 and d1 + d2 == 12 and %d <= p1 <= %d and p1 < p2 <= p1 + 45 and 0 <= prio_idx <= 1' % (lo, lo + 11)],
                            body='H.scen(%r, d1, d2, 2, False, True, True, True, prio_idx, p1, 0, 1, p2)' % prop,
                            tier='thorough', timeout=6000, family=lp + '_foreign', weight=5))
    if tier == 'thorough':
        for pr in range(6):
            out.append(Cell(name='%s_foreign2_prio%d' % (lp, pr), sig='d1: int, d2: int, dur: int, fail0: bool, cancel: bool, p1: int, q1: int',
                            pre=['0 <= d1 <= 12 and 0 <= d2 <= 12 and 0 <= dur <= 3 and 0 <= p1 <= 160 and 0 <= q1 <= 1'],
                            body='H.scen(%r, d1, d2, dur, fail0, %r, cancel, True, %d, p1, q1, 2)' % (prop, uw, pr),
                            tier='thorough', timeout=6000, family=lp + '_foreign', weight=5))
    return out


FUNCS = [('aiuti/asyncio.py', 'BufferAsyncCalls._put'), ('aiuti/asyncio.py', 'BufferAsyncCalls.__call__'), ('aiuti/asyncio.py', 'BufferAsyncCalls.map'),
         ('aiuti/asyncio.py', 'BufferAsyncCalls.wait'), ('aiuti/asyncio.py', 'BufferAsyncCalls.wait_from_anywhere'),
         ('aiuti/asyncio.py', 'BufferAsyncCalls._process_queue'), ('aiuti/asyncio.py', 'BufferAsyncCalls._run_func'),
         ('aiuti/asyncio.py', 'ensure_aw'), ('aiuti/asyncio.py', 'run_aw_threadsafe')]


def conformance(prop):
    for uw in (False, True):
        R = scenario(3, 1, 2, False, uw, True, True, 0, 0)
        assert R['result'] == 'done', R['threads']
        assert judge('C03', R) == [] and judge('C07', R) == [], (judge('C03', R), judge('C07', R), R['box'], [(r['start'], r['set'], r['ok']) for r in R['inv']])
