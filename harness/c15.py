"""C15 - decorator-with-options forms configure exactly like the direct forms; a decorated batcher
works from any number of event loops.

For each decorator the same symbolic-time probing program is run against the object built (1) by the
class / direct call with the options, (2) by `deco(func, **opts)`, (3) by `deco(**opts)(func)`; the
harness-owned function's logs must be identical.  Option values are symbolic where the code path
allows it (time-outs), fixed per cell otherwise (sizes).
"""
import vfw.prelude  # noqa: F401
import asyncio as aio

from vfw.prelude import tracing, reraise_engine
from vfw.cells import Cell
from vfw import vloop, loader
from harness import batcher as B
from harness import buffer as BUF
from harness.c14 import ListMap, V

M = loader.asyncio_S()
LAST_INFO = None
RAW = None
FORMS = ('class', 'direct', 'options')


def _batch_run(form, gaps, keys, bt, rt, dur, mbs, mcb):
    st = B.St()
    f = B._batch_fn(st, lambda k: 'value', 0, 0, dur)
    opts = dict(max_batch_size=mbs, max_concurrent_batches=mcb, batch_timeout=bt, retention_timeout=rt)
    if form == 'class':
        def mk():
            return M.AsyncBackgroundBatcher(f, **opts)
    elif form == 'direct':
        d = M.async_background_batcher(f, **opts)

        def mk():
            return d
    else:
        d = M.async_background_batcher(**opts)(f)

        def mk():
            return d
    calls = [(gaps[i], 100 + i, keys[i]) for i in range(len(gaps))]
    outcome = B.run_program(mk, calls, st)
    log = {'outcome': outcome[0],
           'batches': [(r['start'], tuple(r['keys'])) for r in st.batches],
           'outs': [(st.done_at.get(i), st.out.get(i)) for i in range(len(gaps))]}
    return log


def _same_log(a, b):
    if a['outcome'] != b['outcome'] or len(a['batches']) != len(b['batches']) or len(a['outs']) != len(b['outs']):
        return False
    for (s1, k1), (s2, k2) in zip(a['batches'], b['batches']):
        if k1 != k2 or s1 != s2:
            return False
    for (d1, o1), (d2, o2) in zip(a['outs'], b['outs']):
        if d1 != d2 or (o1 is None) != (o2 is None):
            return False
        if o1 is not None and (o1[0] != o2[0] or (o1[0] == 'ok' and o1[1] != o2[1])):
            return False
    return True


def scen_batcher(gaps, bt, rt, dur, mbs, mcb, keys=('a', 'b', 'a'), forms=FORMS):
    global LAST_INFO, RAW
    logs = {form: _batch_run(form, gaps, keys, bt, rt, dur, mbs, mcb) for form in forms}
    RAW = logs
    devs = []
    if logs['class']['outcome'] != 'ok':
        devs.append('reference-run-' + logs['class']['outcome'])
    if 'direct' in logs and not _same_log(logs['class'], logs['direct']):
        devs.append('direct-decorator-form-behaves-differently')
    if 'options' in logs and not _same_log(logs['class'], logs['options']):
        # name the option when it can be told apart by re-running the reference with the default value
        devs.append('options-decorator-form-behaves-differently')
    if not tracing():
        LAST_INFO = {'gaps': list(gaps), 'keys': list(keys), 'batch_timeout': bt, 'retention_timeout': rt, 'dur': dur,
                     'max_batch_size': mbs, 'max_concurrent_batches': mcb,
                     'logs': {k: {'batches': v['batches'], 'outs': [(d, repr(o)) for d, o in v['outs']]} for k, v in logs.items()}}
    return devs


def twin_batcher(gaps, bt, rt):
    """Reachability: 'retention_timeout made a difference' (a same-key call joined a finished request)."""
    devs = scen_batcher(gaps, bt, rt, 1, 2, 1)
    if devs:
        return []
    a = RAW['class']
    return ['reached'] if len(a['batches']) == 1 and rt > 0 and gaps[2] > bt + 1 else []


def _buffer_run(form, shape, pauses, t, dur, fails):
    # same engine as C03/C07/C08, only the construction differs
    R = BUF.run_prog(shape, pauses, dur, fails, -1, timeout=t, form=form)
    return {'outcome': R['outcome'][0], 'inv': [(r['start'], tuple(sorted(r['set'])), r['ok'], r['end']) for r in R['inv']],
            'waits': [(a, b) for a, b, _, _ in R['waits']]}


def scen_buffer(shape, pauses, t, dur, fails):
    global LAST_INFO, RAW
    logs = {form: _buffer_run(form, shape, pauses, t, dur, fails) for form in FORMS}
    RAW = logs
    devs = []
    ref = logs['class']
    if ref['outcome'] != 'ok':
        devs.append('reference-run-' + ref['outcome'])
    for form, name in (('direct', 'direct-decorator-form-behaves-differently'), ('options', 'options-decorator-form-behaves-differently')):
        o = logs[form]
        same = o['outcome'] == ref['outcome'] and len(o['inv']) == len(ref['inv']) and len(o['waits']) == len(ref['waits'])
        if same:
            for x, y in zip(o['inv'], ref['inv']):
                if x[0] != y[0] or x[1] != y[1] or x[2] != y[2] or x[3] != y[3]:
                    same = False
            for x, y in zip(o['waits'], ref['waits']):
                if x[0] != y[0] or x[1] != y[1]:
                    same = False
        if not same:
            devs.append(name)
    # the option must take effect with the value given: a lone first submission is delivered exactly t later
    if ref['outcome'] == 'ok' and shape.startswith('c') and ref['inv'] and 'w' not in shape and 'b' not in shape:
        pass
    if not tracing():
        LAST_INFO = {'shape': shape, 'pauses': list(pauses), 'timeout': t, 'dur': dur, 'fails': list(fails), 'logs': logs}
    return devs


def scen_cache(a, b, kw):
    """threadsafe_async_cache(f, cache=m) vs threadsafe_async_cache(cache=m)(f) vs no cache argument."""
    global LAST_INFO
    devs = []
    logs = {}
    for form in ('direct', 'options', 'default', 'options-empty'):
        inv = []

        async def f(*args, **kwargs):
            inv.append((args, kwargs))
            return ('val', len(inv) - 1)
        m = ListMap()
        if form == 'direct':
            g = M.threadsafe_async_cache(f, cache=m)
        elif form == 'options':
            g = M.threadsafe_async_cache(cache=m)(f)
        elif form == 'default':
            g = M.threadsafe_async_cache(f)
        else:
            g = M.threadsafe_async_cache()(f)
        res = []

        async def main():
            va, vb = V(a), V(b)
            for args, kws in (((va,), {}), ((vb,), {}), ((va,), {}), ((va,), {'x': vb} if kw else {}), ((vb,), {})):
                res.append(await g(*args, **kws))
        outcome, _ = vloop.run(main)
        logs[form] = (outcome[0], list(res), len(inv), len(m.pairs))
    ref = logs['direct']
    if ref[0] != 'ok':
        devs.append('reference-run-' + ref[0])
    if logs['options'][:3] != ref[:3]:
        devs.append('options-decorator-form-behaves-differently')
    if logs['options'][3] != logs['options'][2] or ref[3] != ref[2]:
        devs.append('supplied-cache-mapping-not-used')
    if logs['default'][:3] != ref[:3] or logs['options-empty'][:3] != ref[:3]:
        devs.append('default-cache-form-behaves-differently')
    if not tracing():
        LAST_INFO = {'logs': {k: repr(v) for k, v in logs.items()}}
    return devs


def scen_shared_state(a, gap, which):
    """objects built from one configured decorator (or two batchers built the same way) share nothing"""
    global LAST_INFO
    devs = []
    out = {}
    if which == 0:
        deco = M.threadsafe_async_cache()

        async def f(x):
            return ('f', x)

        async def g(x):
            return ('g', x)
        cf, cg = deco(f), deco(g)

        async def main():
            va = V(a)
            out['f'] = await cf(va)
            out['g'] = await cg(va)
        outcome, _ = vloop.run(main)
        if outcome[0] != 'ok':
            devs.append('calls-' + outcome[0])
        elif out.get('f', ('', 0))[0] != 'f' or out.get('g', ('', 0))[0] != 'g':
            devs.append('functions-decorated-by-one-configured-decorator-share-a-cache')
    else:
        def mkf(tag):
            async def bf(batch):
                batch = list(batch)
                await aio.sleep(2)
                for k, v in batch:
                    yield k, (tag, k, v)
            return bf
        if which == 1:
            d1 = M.async_background_batcher(max_batch_size=2, batch_timeout=3)(mkf('one'))
            d2 = M.async_background_batcher(max_batch_size=2, batch_timeout=3)(mkf('two'))
        else:
            d1 = d2 = None

        async def main():
            loop = aio.get_running_loop()
            b1 = d1 or M.AsyncBackgroundBatcher(mkf('one'), max_batch_size=2, batch_timeout=3)
            b2 = d2 or M.AsyncBackgroundBatcher(mkf('two'), max_batch_size=2, batch_timeout=3)

            async def c1():
                out['one'] = await b1(7)

            async def c2():
                if gap > 0:
                    await aio.sleep(gap)
                out['two'] = await b2(7)
            await aio.gather(loop.create_task(c1()), loop.create_task(c2()))
        outcome, _ = vloop.run(main)
        if outcome[0] != 'ok':
            devs.append('calls-' + ('never-complete' if outcome[0] == 'hang' else outcome[0]))
        elif out.get('one', ('',))[0] != 'one' or out.get('two', ('',))[0] != 'two':
            devs.append('two-batchers-share-pending-requests')
    if not tracing():
        LAST_INFO = {'which': which, 'gap': gap, 'out': repr(out)}
    return devs


def scen_loops(nloops, gaps, bt, keep_loops, form):
    """a decorated batcher (decorated outside any loop) used from successive event loops."""
    global LAST_INFO
    devs = []
    st = B.St()
    seen_loops = []

    async def f(batch):
        batch = list(batch)
        loop = aio.get_running_loop()
        rec = {'loop': loop, 'keys': [k for k, _ in batch], 'start': loop.time()}
        st.batches.append(rec)
        await aio.sleep(1)
        for k, v in batch:
            yield k, ('val', len(st.batches) - 1, k, v)
    if form == 'options':
        d = M.async_background_batcher(max_batch_size=2, batch_timeout=bt)(f)
    else:
        d = M.async_background_batcher(f, max_batch_size=2, batch_timeout=bt)
    kept = []
    for li in range(nloops):
        res = {}

        async def main(li=li):
            loop = aio.get_running_loop()
            seen_loops.append(loop if keep_loops else None)

            async def one(j):
                res[j] = await d(10 * li + j)
            ts = []
            for j, g in enumerate(gaps):
                if g > 0:
                    await aio.sleep(g)
                ts.append(loop.create_task(one(j)))
            await aio.gather(*ts)
            return loop
        nb0 = len(st.batches)
        # keep_loops: explicitly managed loops - run_until_complete returns, the loop stays open (not closed) while the next one is used
        outcome, loop = vloop.run(main, shutdown=not keep_loops, close=not keep_loops)
        if keep_loops:
            kept.append(loop)
        if outcome[0] != 'ok':
            devs.append('call-on-loop-%d-%s' % (li + 1, 'never-completes' if outcome[0] == 'hang' else outcome[0]))
            break
        for j in range(len(gaps)):
            v = res.get(j)
            if not (isinstance(v, tuple) and v[0] == 'val' and v[2] == str(10 * li + j) and v[3] == 10 * li + j):
                devs.append('wrong-result-on-loop-%d' % (li + 1))
                break
        mine = st.batches[nb0:]
        if any(r['loop'] is not loop for r in mine):
            devs.append('batch-ran-on-another-loop')
        keys = [k for r in mine for k in r['keys']]
        if sorted(keys) != sorted(str(10 * li + j) for j in range(len(gaps))):
            devs.append('batching-not-independent-per-loop')
        if any(len(r['keys']) > 2 for r in mine):
            devs.append('max_batch_size-ignored')
        del loop
    for loop in kept:
        vloop.close_leftovers(loop)
        try:
            loop.close()
        except Exception:  # noqa
            pass
    if not tracing():
        LAST_INFO = {'nloops': nloops, 'gaps': list(gaps), 'bt': bt, 'batches': [(r['keys'], r['start']) for r in st.batches]}
    return sorted(set(devs))


def cells(prop, tier):
    out = []
    q = 'quick'
    for mbs, mcb in ((2, 1), (1, 2)):
        for sfx, pre in B.product_pre([B.parts('gaps[1]', [(0, 4), (5, 12)]), B.parts('gaps[2]', [(0, 6), (7, 14)]),
                                       B.parts('rt', [(0, 0), (1, 4), (5, 9)])]):
            out.append(Cell(name='c15_batcher_mbs%d_mcb%d_p%s' % (mbs, mcb, sfx), sig='gaps: List[int], bt: int, rt: int, dur: int',
                            pre=['len(gaps) == 3 and gaps[0] == 0 and 3 <= bt <= 8 and 0 <= dur <= 1', pre],
                            body='H.scen_batcher(gaps, bt, rt, dur, %d, %d)' % (mbs, mcb), tier='thorough',
                            timeout=1500, family='batcher', weight=4))
    for forms in (('class', 'options'), ('class', 'direct')):
        for sfx, pre in B.product_pre([B.parts('gaps[2]', [(0, 4), (5, 8), (9, 12)]), B.parts('rt', [(0, 0), (1, 3), (4, 8)])]):
            out.append(Cell(name='c15_batcher_%s_p%s' % (forms[1], sfx), sig='gaps: List[int], bt: int, rt: int',
                            pre=['len(gaps) == 3 and gaps[0] == 0 and 0 <= gaps[1] <= 2 and 4 <= bt <= 5', pre],
                            body='H.scen_batcher(gaps, bt, rt, 1, 2, 1, ("a", "b", "a"), %r)' % (forms,), tier=q,
                            timeout=600, family='batcher', weight=4))
    out.append(Cell(name='c15_batcher_mbs1_mcb2_short', sig='gaps: List[int], bt: int, rt: int, dur: int',
                    pre=['len(gaps) == 3 and gaps[0] == 0 and all(0 <= g <= 3 for g in gaps) and bt == 3 and 0 <= rt <= 2 and dur == 2'],
                    body='H.scen_batcher(gaps, bt, rt, dur, 1, 2, ("a", "b", "a"), ("class", "options"))', tier=q, timeout=600, family='batcher', weight=4))
    # falsy but non-default option value: batch_timeout = 0 (default 0.05) must take effect as given in every form
    for forms in (('class', 'options'), ('class', 'direct')):
        out.append(Cell(name='c15_batcher_zero_timeout_%s' % forms[1], sig='gaps: List[int], rt: int, dur: int',
                        pre=['len(gaps) == 3 and gaps[0] == 0 and 0 <= gaps[1] <= 2 and 0 <= gaps[2] <= 3 and 0 <= rt <= 2 and 0 <= dur <= 1'],
                        body='H.scen_batcher(gaps, 0, rt, dur, 2, 1, ("a", "b", "a"), %r)' % (forms,), tier=q, timeout=600, family='batcher', weight=3))
    if tier != 'thorough':
        out = [c for c in out if c.tier == 'quick']
    out.append(Cell(name='c15_buffer_cpc', sig='pauses: List[int], t: int, dur: int, fails: List[bool]',
                    pre=['len(pauses) == 1 and 0 <= pauses[0] <= 20 and 3 <= t <= 15 and 0 <= dur <= 20 and len(fails) == 1'],
                    body="H.scen_buffer('cpc', pauses, t, dur, fails)", tier=q, timeout=400, family='buffer', weight=3))
    out.append(Cell(name='c15_buffer_cpW', sig='pauses: List[int], t: int, dur: int, fails: List[bool]',
                    pre=['len(pauses) == 1 and 0 <= pauses[0] <= 20 and 3 <= t <= 15 and 0 <= dur <= 20 and len(fails) == 1'],
                    body="H.scen_buffer('cpW', pauses, t, dur, fails)", tier=q, timeout=400, family='buffer', weight=3))
    out.append(Cell(name='c15_cache', sig='a: int, b: int, kw: bool', pre=['True'], body='H.scen_cache(a, b, kw)', tier=q, timeout=200, family='cache'))
    for which in range(3):
        out.append(Cell(name='c15_shared_state_%d' % which, sig='a: int, gap: int', pre=['0 <= gap <= 8'],
                        body='H.scen_shared_state(a, gap, %d)' % which, tier=q, timeout=200, family='shared'))
    for form in ('options', 'direct'):
        for keep in (True, False):
            out.append(Cell(name='c15_loops_%s_%s' % (form, 'kept' if keep else 'dropped'), sig='nloops: int, gaps: List[int], bt: int',
                            pre=['1 <= nloops <= 3 and len(gaps) == 2 and gaps[0] == 0 and 0 <= gaps[1] <= 9 and 3 <= bt <= 6'],
                            body='H.scen_loops(nloops, gaps, bt, %r, %r)' % (keep, form), tier=q, timeout=300, family='loops', weight=2))
    out.append(Cell(name='twin_c15_retention_matters', sig='gaps: List[int], bt: int, rt: int',
                    pre=['len(gaps) == 3 and gaps[0] == 0 and 0 <= gaps[1] <= 3 and 0 <= gaps[2] <= 14 and 3 <= bt <= 8 and 0 <= rt <= 9'],
                    body='H.twin_batcher(gaps, bt, rt)', expect='refute', timeout=300, family='batcher'))
    if tier == 'thorough':
        for mbs, mcb in ((3, 1), (2, 2), (1, 1)):
            for sfx, pre in B.product_pre([B.parts('gaps[1]', [(0, 4), (5, 12)]), B.parts('gaps[2]', [(0, 6), (7, 14)]), B.parts('gaps[3]', [(0, 6), (7, 14)])]):
                out.append(Cell(name='c15_batcher4_mbs%d_mcb%d_p%s' % (mbs, mcb, sfx), sig='gaps: List[int], bt: int, rt: int, dur: int',
                                pre=['len(gaps) == 4 and gaps[0] == 0 and 3 <= bt <= 8 and 0 <= rt <= 9 and 0 <= dur <= 2', pre],
                                body="H.scen_batcher(gaps, bt, rt, dur, %d, %d, ('a', 'b', 'a', 'c'))" % (mbs, mcb), tier='thorough', timeout=3000, family='batcher', weight=4))
        for sh in ('cpcpc', 'mpcw', 'cpbpc'):
            npz = sum(1 for k in sh if k == 'p')
            out.append(Cell(name='c15_buffer_%s' % sh, sig='pauses: List[int], t: int, dur: int, fails: List[bool]',
                            pre=['len(pauses) == %d and all(0 <= p <= 20 for p in pauses) and 3 <= t <= 15 and 0 <= dur <= 20 and len(fails) == 2' % npz],
                            body="H.scen_buffer(%r, pauses, t, dur, fails)" % sh, tier='thorough', timeout=3000, family='buffer', weight=3))
    return out


META = {'C15': {
    'explanation': 'For async_background_batcher / buffer_until_timeout / threadsafe_async_cache the same virtual-time probing program is run '
                   'against the class (or direct call), the decorator called with the function and options, and the decorator called with options '
                   'only; harness-owned logs (batch start instants and contents, caller completion instants and values; invocation instants, '
                   'argument sets and wait() return instants; invocation counts and cache-mapping contents) must be identical. batch_timeout, '
                   'retention_timeout and timeout are symbolic integers, so z3 decides every timing order in which an ignored or defaulted option '
                   'would show; max_batch_size / max_concurrent_batches are fixed per cell. A batcher decorated outside any loop is used from 1..3 '
                   'successive event loops (kept alive or dropped) and must batch each loop\'s calls independently on that loop.',
    'functions': [('aiuti/asyncio.py', 'async_background_batcher'), ('aiuti/asyncio.py', 'buffer_until_timeout'),
                  ('aiuti/asyncio.py', 'threadsafe_async_cache'), ('aiuti/asyncio.py', 'AsyncBackgroundBatcher.__init__')],
    'bounds': 'quick: 3 batcher calls (keys a,b,a) with gaps 0..14, batch_timeout 3..8 and the falsy value 0, retention_timeout 0..9, batch duration 0..2, (size,concurrency) '
              'in {(2,1),(1,2)}; buffer programs c-p-c and c-p-wait(cancel=False) with timeout 3..15; 1..3 successive loops with 2 calls each; '
              'thorough: 4 batcher calls, more size/concurrency pairs, longer buffer programs',
    'outside': '2..3 loops used concurrently from different threads (needs Mode T; not built for this property)',
    'assumptions': ['stock CPython 3.12 asyncio with pure-python Task and integer clock'],
}}


def conformance(prop):
    d = scen_cache(1, 2, True)
    assert d == [], (d, LAST_INFO)
    d = scen_loops(2, [0, 4], 5, True, 'direct')
    assert d == [], (d, LAST_INFO)
    d = scen_buffer('cpc', [3], 7, 2, [False])
    assert d == [], (d, LAST_INFO)
