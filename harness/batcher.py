"""C04, C09, C10, C11 - AsyncBackgroundBatcher on the virtual-time loop (Mode S).

Common engine: a timed program of calls (symbolic gaps between arrivals), a harness-owned batch
function that logs every batch (identity, start/end instant, contents, what it yielded), optional
cancellation of callers at symbolic instants.  z3 decides the order of arrivals, batch time-outs,
batch completions, retention expiries and cancellations.
"""
import vfw.prelude  # noqa: F401
import asyncio as aio

from vfw.prelude import reraise_engine, pick, tracing
from vfw.cells import Cell
from vfw import vloop, loader

M = loader.asyncio_S()
LAST_INFO = None
RAW = None


class St:
    def __init__(self):
        self.arrive = {}
        self.out = {}
        self.done_at = {}
        self.batches = []
        self.running = 0
        self.maxrun = 0
        self.tasks = {}
        self.cancelled_by_harness = set()
        self.notes = []


def run_program(make_batcher, calls, st, *, cancels=None, timeouts=None, after=None, linger=0):
    """calls: list of (gap, arg, key|None) - gap = virtual time since the previous arrival.
    cancels: {call index: delay after its arrival at which the harness cancels that caller's task}
    timeouts: {call index: wait_for timeout around the call}
    after: optional coroutine function (b, st) run when all callers are done (fresh calls).
    Returns outcome tuple of vloop.run."""
    cancels = cancels or {}
    timeouts = timeouts or {}

    async def caller(b, i, arg, key):
        loop = aio.get_running_loop()
        st.arrive[i] = loop.time()
        if i in cancels:
            loop.call_later(cancels[i], _cancel, i)
        try:
            coro = b(arg) if key is None else b(arg, key=key)
            if i in timeouts:
                v = await aio.wait_for(coro, timeouts[i])
            else:
                v = await coro
            out = ('ok', v)
        except aio.CancelledError:
            out = ('cancelled',)
        except aio.TimeoutError as e:
            out = ('timeout', e) if i in timeouts else ('exc', e)
        except BaseException as e:  # noqa
            reraise_engine(e)
            if isinstance(e, (GeneratorExit, KeyboardInterrupt, SystemExit, vloop.Deadlock)):
                raise
            out = ('exc', e)
        st.out[i] = out
        st.done_at[i] = loop.time()

    def _cancel(i):
        t = st.tasks.get(i)
        if t is not None and not t.done():
            st.cancelled_by_harness.add(i)
            t.cancel()

    async def main():
        loop = aio.get_running_loop()
        b = make_batcher()
        st.batcher = b
        for i, (gap, arg, key) in enumerate(calls):
            if gap > 0:
                await aio.sleep(gap)
            st.tasks[i] = loop.create_task(caller(b, i, arg, key))
        await aio.gather(*[st.tasks[i] for i in sorted(st.tasks)], return_exceptions=True)
        if after is not None:
            await after(b, st)
        if linger:
            await aio.sleep(linger)
        lt = getattr(b, '_loop_task', None)
        st.loop_task_done = lt.done() if lt is not None else None
        return True

    outcome, loop = vloop.run(main)
    st.unhandled = list(loop.unhandled)
    return outcome


def hang_devs(st, outcome, n):
    devs = []
    if outcome[0] == 'hang':
        missing = [i for i in range(n) if i not in st.out]
        devs.append('caller-never-completes' if missing else 'program-hangs')
    elif outcome[0] == 'livelock':
        devs.append('busy-loop-without-suspension')
    elif outcome[0] == 'exc':
        devs.append('program-raised:' + type(outcome[1]).__name__)
    elif outcome[0] != 'ok':
        devs.append('loop-' + outcome[0])
    return devs


# =============================================================================== C10
def scen_c10(gaps, dur, mbs, mcb, bt=10, mutate=None):
    """distinct keys, every call succeeds. mutate: (at, new_mbs) reassigns max_batch_size at that instant."""
    global LAST_INFO
    st = St()
    n = len(gaps)

    async def f(batch):
        batch = list(batch)
        loop = aio.get_running_loop()
        rec = {'start': loop.time(), 'keys': [k for k, _ in batch], 'end': None}
        st.batches.append(rec)
        st.running += 1
        st.maxrun = max(st.maxrun, st.running)
        await aio.sleep(dur)
        st.running -= 1
        rec['end'] = loop.time()
        for k, v in batch:
            yield k, v

    def mk():
        b = M.AsyncBackgroundBatcher(f, max_batch_size=mbs, max_concurrent_batches=mcb, batch_timeout=bt)
        if mutate is not None:
            def _set():
                b.max_batch_size = mutate[1]
            aio.get_running_loop().call_later(mutate[0], _set)
        return b

    calls = [(gaps[i], i, None) for i in range(n)]
    outcome = run_program(mk, calls, st)
    devs = hang_devs(st, outcome, n)
    if devs:
        return devs
    for i in range(n):
        if st.out.get(i) != ('ok', i):
            devs.append('wrong-result')
            break
    batches = st.batches
    lim_hi = mbs if mutate is None else max(mbs, mutate[1])
    for b in batches:
        if len(b['keys']) < 1:
            devs.append('empty-batch')
        elif len(b['keys']) > lim_hi:
            devs.append('batch-larger-than-max_batch_size')
    if st.maxrun > mcb:
        devs.append('more-than-max_concurrent_batches-running')
    order = [k for b in batches for k in b['keys']]
    arr = [str(i) for i in range(n)]
    if order != arr:
        devs.append('not-fifo' if sorted(order) == sorted(arr) else 'items-lost-or-duplicated')
        return devs
    if mutate is not None:
        # with a limit change only the size bound in force is judged precisely
        t_mut = mutate[0]
        for b in batches:
            first = st.arrive[int(b['keys'][0])]
            if b['start'] < t_mut and len(b['keys']) > mbs:
                devs.append('batch-larger-than-max_batch_size')
            if first > t_mut and len(b['keys']) > mutate[1]:
                devs.append('batch-larger-than-max_batch_size')
        return devs
    at = {str(i): st.arrive[i] for i in range(n)}
    where = {k: bi for bi, b in enumerate(batches) for k in b['keys']}
    for a, b_ in zip(arr, arr[1:]):
        gap = at[b_] - at[a]
        if gap < bt and where[a] != where[b_] and len(batches[where[a]]['keys']) < mbs:
            devs.append('arrivals-within-batch_timeout-not-batched-together')
        if gap > bt and where[a] == where[b_]:
            devs.append('batch-held-open-beyond-batch_timeout')
    ends = []
    for bi, b in enumerate(batches):
        last = at[b['keys'][-1]]
        full = len(b['keys']) == mbs
        asm = last if full else last + bt
        slot = 0
        if len(ends) >= mcb:
            slot = sorted(ends)[len(ends) - mcb]
        exp = asm if asm >= slot else slot
        if b['start'] > exp:
            devs.append('batch-dispatched-late')
        if not full and b['start'] < last + bt:
            devs.append('batch-dispatched-before-batch_timeout')
        ends.append(b['end'])
    if not tracing():
        LAST_INFO = {'gaps': list(gaps), 'dur': dur, 'mbs': mbs, 'mcb': mcb, 'bt': bt, 'mutate': mutate,
                     'arrivals': [st.arrive[i] for i in range(n)],
                     'batches': [(b['start'], b['keys'], b['end']) for b in batches]}
    return devs


def twin_c10(gaps, dur):
    """Reachability: 'a second batch had to wait for a concurrency slot' never happens."""
    devs = scen_c10(gaps, dur, 1, 1)
    if devs:
        return []
    return ['reached']


# =============================================================================== C11
class BatchErr(ValueError):
    pass


def scen_c11(gaps, kidx, rt, dur, failmask, explicit_keys=True, bt=2):
    """calls over keys a/b; outcome value or exception per key; retention window rt; no cancellation."""
    global LAST_INFO
    st = St()
    n = len(gaps)
    names = ('a', 'b')

    async def f(batch):
        batch = list(batch)
        bid = len(st.batches)
        st.batches.append({'keys': [k for k, _ in batch], 'start': aio.get_running_loop().time()})
        if dur > 0:
            await aio.sleep(dur)
        for k, v in batch:
            ki = 0 if k in ('a', '0') else 1
            if (failmask >> ki) & 1:
                yield k, BatchErr(bid)
            else:
                yield k, ('val', bid, k)

    def mk():
        return M.AsyncBackgroundBatcher(f, batch_timeout=bt, retention_timeout=rt)

    keyof = []
    calls = []
    for i in range(n):
        ki = 0 if kidx[i] == 0 else 1
        keyof.append(ki)
        if explicit_keys:
            calls.append((gaps[i], 100 + i, names[ki]))   # different args, same explicit key
        else:
            calls.append((gaps[i], ki, None))             # key = str(arg)
    outcome = run_program(mk, calls, st, linger=0)
    devs = hang_devs(st, outcome, n)
    if devs:
        return devs
    global RAW
    RAW = {'batches': st.batches}
    for b in st.batches:
        if len(set(b['keys'])) != len(b['keys']):
            devs.append('key-twice-in-one-batch')
    for ki in (0, 1):
        idxs = [i for i in range(n) if keyof[i] == ki]
        cur = None  # (bid, done time of the computation's original caller)
        for i in idxs:
            out = st.out[i]
            if out[0] == 'ok':
                v = out[1]
                if not (isinstance(v, tuple) and len(v) == 3 and v[0] == 'val'):
                    devs.append('wrong-value')
                    continue
                bid = v[1]
                if (failmask >> ki) & 1:
                    devs.append('exception-outcome-returned-as-value')
            elif out[0] == 'exc' and isinstance(out[1], BatchErr):
                bid = out[1].args[0]
                if not (failmask >> ki) & 1:
                    devs.append('unexpected-exception')
            else:
                devs.append('unexpected-outcome:' + out[0])
                continue
            t0 = st.arrive[i]
            if cur is None:
                cur = (bid, st.done_at[i])
                continue
            cbid, cdone = cur
            if t0 < cdone or t0 < cdone + rt:
                if bid != cbid:
                    devs.append('recomputed-inside-retention-window')
            elif t0 > cdone + rt:
                if bid == cbid:
                    devs.append('stale-result-after-retention-window')
                cur = (bid, st.done_at[i])
            else:  # tie: not judged
                if bid != cbid:
                    cur = (bid, st.done_at[i])
    if not tracing():
        LAST_INFO = {'gaps': list(gaps), 'keys': [names[k] for k in keyof], 'rt': rt, 'dur': dur, 'failmask': failmask,
                     'arrive': [st.arrive[i] for i in range(n)], 'done': [st.done_at.get(i) for i in range(n)],
                     'out': [repr(st.out.get(i)) for i in range(n)], 'batches': [b['keys'] for b in st.batches]}
    return devs


def twin_c11(gaps, rt):
    """Reachability: 'a key was recomputed after its window and another call joined inside a window'."""
    devs = scen_c11(gaps, [0, 0, 0], rt, 1, 0)
    if devs:
        return []
    return ['reached'] if len(RAW['batches']) >= 2 and len(RAW['batches']) < 3 else []


# =============================================================================== cells
def parts(var, ranges):
    """pre-line fragments restricting one symbolic integer to each range of a partition."""
    return ['%d <= %s <= %d' % (lo, var, hi) for lo, hi in ranges]


def product_pre(fragsets):
    """cartesian product of pre-line fragments -> list of (suffix, joined pre)"""
    out = [('', [])]
    for frs in fragsets:
        out = [(sfx + str(i), pre + [f]) for sfx, pre in out for i, f in enumerate(frs)]
    return [(sfx, ' and '.join(pre)) for sfx, pre in out]


def c11_cells(tier):
    out = []
    q = 'quick'
    sig = 'gaps: List[int], rt: int, dur: int'
    for pat in ('aa', 'ab'):
        for fm in (0, 1):
            for ek in (True, False):
                out.append(Cell(name='c11_%s_f%d_%s' % (pat, fm, 'key' if ek else 'str'), sig=sig,
                                pre=['len(gaps) == 2 and gaps[0] == 0 and 0 <= gaps[1] <= 25 and 0 <= rt <= 15 and 0 <= dur <= 3'],
                                body='H.scen_c11(gaps, %r, rt, dur, %d, %r)' % ([0 if c == 'a' else 1 for c in pat], fm, ek),
                                tier=q, timeout=170, family='c11'))
    for pat in ('aaa', 'aab', 'aba'):
        for fm in (0, 1):
            split = [('', '0 <= gaps[2] <= 20 and 0 <= rt <= 15')] if pat == 'aaa' else \
                product_pre([parts('gaps[2]', [(0, 4), (5, 20)] if pat != 'aba' else [(0, 1), (2, 4), (5, 20)]), parts('rt', [(0, 0), (1, 5), (6, 15)])]
                            + [parts('gaps[1]', [(0, 2), (3, 20)])])
            for sfx, pre in split:
                out.append(Cell(name='c11_%s_f%d%s' % (pat, fm, '_p' + sfx if sfx else ''), sig=sig,
                                pre=['len(gaps) == 3 and gaps[0] == 0 and 0 <= gaps[1] <= 20 and 0 <= dur <= 3', pre],
                                body='H.scen_c11(gaps, %r, rt, dur, %d)' % ([0 if c == 'a' else 1 for c in pat], fm),
                                tier=q if (fm == 0 or pat == 'aaa') else 'thorough',
                                timeout=170 if (fm == 0 or pat == 'aaa') else 600, family='c11',
                                weight={'aba': 4, 'aab': 3, 'aaa': 3}[pat]))
    if tier != 'thorough':
        out = [c for c in out if c.tier == 'quick']
    out.append(Cell(name='twin_c11_recompute_and_join', sig='gaps: List[int], rt: int',
                    pre=['len(gaps) == 3 and gaps[0] == 0 and all(0 <= g <= 20 for g in gaps) and 0 <= rt <= 15'],
                    body='H.twin_c11(gaps, rt)', expect='refute', timeout=120, family='c11'))
    if tier == 'thorough':
        for pat in ('aaaa', 'aaba', 'abab', 'aabb', 'abba'):
            for fm in (0, 1, 2):
                out.append(Cell(name='c11_%s_f%d' % (pat, fm), sig=sig,
                                pre=['len(gaps) == 4 and gaps[0] == 0 and all(0 <= g <= 20 for g in gaps) and 0 <= rt <= 15 and 0 <= dur <= 3'],
                                body='H.scen_c11(gaps, %r, rt, dur, %d)' % ([0 if c == 'a' else 1 for c in pat], fm),
                                tier='thorough', timeout=2400, family='c11'))
        out.append(Cell(name='c11_aaaaa_f0', sig=sig,
                        pre=['len(gaps) == 5 and gaps[0] == 0 and all(0 <= g <= 12 for g in gaps) and 0 <= rt <= 8 and 0 <= dur <= 2'],
                        body='H.scen_c11(gaps, [0, 0, 0, 0, 0], rt, dur, 0)', tier='thorough', timeout=3000, family='c11'))
    return out


def c10_cells(tier):
    out = []
    q = 'quick'
    for n, mbs, mcb in ((3, 1, 1), (3, 2, 1), (3, 2, 2), (3, 3, 2)):
        out.append(Cell(name='c10_n%d_mbs%d_mcb%d' % (n, mbs, mcb), sig='gaps: List[int], dur: int',
                        pre=['len(gaps) == %d and gaps[0] == 0 and all(0 <= g <= 25 for g in gaps) and 0 <= dur <= 30' % n],
                        body='H.scen_c10(gaps, dur, %d, %d)' % (mbs, mcb), tier=q, timeout=170, family='c10'))
    halves = [(0, 9), (10, 25)]
    for mbs, mcb in ((2, 1), (2, 2)):
        for sfx, pre in product_pre([parts('gaps[1]', halves), parts('gaps[2]', halves), parts('gaps[3]', halves)]):
            isq = (mbs, mcb) == (2, 1) and sfx.startswith('0')
            out.append(Cell(name='c10_n4_mbs%d_mcb%d_p%s' % (mbs, mcb, sfx), sig='gaps: List[int], dur: int',
                            pre=['len(gaps) == 4 and gaps[0] == 0 and 0 <= dur <= 30', pre],
                            body='H.scen_c10(gaps, dur, %d, %d)' % (mbs, mcb), tier=q if isq else 'thorough',
                            timeout=170 if isq else 1200, family='c10'))
    for new in (1, 2, 3):
        for sfx, pre in product_pre([parts('at', halves)]):
            isq = sfx == '0'
            out.append(Cell(name='c10_mutate_n3_new%d_p%s' % (new, sfx), sig='gaps: List[int], dur: int, at: int',
                            pre=['len(gaps) == 3 and gaps[0] == 0 and all(0 <= g <= 12 for g in gaps) and 0 <= dur <= 12', pre],
                            body='H.scen_c10(gaps, dur, 2, 2, 10, (at, %d))' % new, tier=q if isq else 'thorough',
                            timeout=170 if isq else 1200, family='c10'))
    out.append(Cell(name='twin_c10_slot_wait', sig='gaps: List[int], dur: int',
                    pre=['len(gaps) == 2 and gaps[0] == 0 and 0 <= gaps[1] <= 25 and 0 <= dur <= 30'],
                    body='H.twin_c10(gaps, dur)', expect='refute', timeout=90, family='c10'))
    if tier != 'thorough':
        out = [c for c in out if c.tier == 'quick']
    if tier == 'thorough':
        for n, mbs, mcb in ((4, 1, 2), (4, 3, 1), (4, 3, 2), (4, 4, 3), (4, 2, 3)):
            out.append(Cell(name='c10_n%d_mbs%d_mcb%d' % (n, mbs, mcb), sig='gaps: List[int], dur: int',
                            pre=['len(gaps) == %d and gaps[0] == 0 and all(0 <= g <= 25 for g in gaps) and 0 <= dur <= 30' % n],
                            body='H.scen_c10(gaps, dur, %d, %d)' % (mbs, mcb), tier='thorough', timeout=2400, family='c10'))
        thirds = [(0, 9), (10, 10), (11, 25)]
        for mbs, mcb in ((2, 2), (3, 1)):
            for sfx, pre in product_pre([parts('gaps[%d]' % i, halves) for i in (1, 2, 3, 4)] + [parts('dur', [(0, 9), (10, 30)])]):
                out.append(Cell(name='c10_n5_mbs%d_mcb%d_p%s' % (mbs, mcb, sfx), sig='gaps: List[int], dur: int',
                                pre=['len(gaps) == 5 and gaps[0] == 0', pre],
                                body='H.scen_c10(gaps, dur, %d, %d)' % (mbs, mcb), tier='thorough', timeout=1500, family='c10'))
    return out


def cells(prop, tier):
    out = []
    q = 'quick'
    if prop == 'C10':
        out += c10_cells(tier)
    if prop == 'C11':
        out += c11_cells(tier)
    return out


META = {
    'C10': {
        'explanation': 'AsyncBackgroundBatcher from the current /repo/aiuti/asyncio.py on the virtual-time loop; arrival gaps and the batch '
                       'duration are symbolic integers (z3 decides the order of arrivals, batch time-outs, batch ends and slot releases, ties '
                       'included); max_batch_size / max_concurrent_batches fixed per cell; oracle from the harness-owned batch function log: '
                       'size and concurrency limits, FIFO, sharing within batch_timeout, dispatch no later than batch_timeout after the last '
                       'member (once a slot is free), not earlier unless full; ties with batch_timeout not judged.',
        'functions': [('aiuti/asyncio.py', 'AsyncBackgroundBatcher.__call__'), ('aiuti/asyncio.py', 'AsyncBackgroundBatcher._get_next_batch'),
                      ('aiuti/asyncio.py', 'AsyncBackgroundBatcher._process_batch'), ('aiuti/asyncio.py', 'AsyncBackgroundBatcher._processing_loop')],
        'bounds': 'quick: 3..4 calls, gaps 0..25 and batch duration 0..30 around batch_timeout=10, max_batch_size 1..3, max_concurrent 1..2, '
                  'one reassignment of max_batch_size at a symbolic instant; thorough: 5..6 calls, limits up to 5/3',
        'outside': 'more than 6 calls; float time (integer virtual clock); batch functions that fail (C04)',
        'assumptions': ['stock CPython 3.12 asyncio (Queue, Semaphore, wait_for) with a pure-python Task class and an integer clock'],
    },
}


META['C11'] = {
    'explanation': 'AsyncBackgroundBatcher on the virtual-time loop: timed sequences of calls over one or two keys with symbolic gaps, a '
                   'symbolic retention_timeout and batch duration; z3 decides the order of arrivals, batch completion and retention expiry. '
                   'Oracle from the harness-owned batch function (batch identity is carried in every yielded value/exception): no key twice in a '
                   'batch; a call arriving while the key is pending or strictly inside the window joins (same batch identity); a call arriving '
                   'strictly after the window is computed by a later batch; retention 0: recomputed once the original caller was answered. '
                   'Exact ties are not judged.',
    'functions': [('aiuti/asyncio.py', 'AsyncBackgroundBatcher.__call__'), ('aiuti/asyncio.py', 'AsyncBackgroundBatcher._process_batch'),
                  ('aiuti/asyncio.py', 'AsyncBackgroundBatcher._get_next_batch')],
    'bounds': 'quick: 2..3 calls over keys a/b (explicit keys and str(arg) keys), gaps 0..25, retention 0..15 (symbolic, includes 0), batch '
              'duration 0..3, value and exception outcomes; thorough: 4..5 calls',
    'outside': 'cancelled callers (C09); three keys; more than 5 calls',
    'assumptions': ['stock CPython 3.12 asyncio with pure-python Task and integer clock'],
}


def conformance(prop):
    if prop == 'C11':
        assert scen_c11([0, 0, 0], [0, 0, 0], 0, 1, 0) == [], LAST_INFO
        assert scen_c11([0, 5, 20], [0, 0, 0], 10, 1, 1) == [], LAST_INFO
        assert scen_c11([0, 5, 1], [0, 1, 0], 0, 0, 0, False) == [], LAST_INFO
    if prop == 'C10':
        assert scen_c10([0, 0, 0, 0], 5, 2, 5) == [], LAST_INFO
        assert scen_c10([0, 3, 12, 0], 12, 2, 1) == [], LAST_INFO
        assert scen_c10([0, 3, 3], 4, 2, 2, 10, (5, 1)) == [], LAST_INFO
