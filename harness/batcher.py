"""C04, C09, C10, C11 - AsyncBackgroundBatcher on the virtual-time loop (Mode S).

Common engine: a timed program of calls (symbolic gaps between arrivals), a harness-owned batch
function that logs every batch (identity, start/end instant, contents, what it yielded), optional
cancellation of callers at symbolic instants.  z3 decides the order of arrivals, batch time-outs,
batch completions, retention expiries and cancellations.
"""
import vfw.prelude  # noqa: F401
import asyncio as aio

from vfw.prelude import reraise_engine, pick, tracing
from vfw.cells import Cell
from vfw import vloop, loader

M = loader.asyncio_S()
LAST_INFO = None
RAW = None


class St:
    def __init__(self):
        self.arrive = {}
        self.out = {}
        self.done_at = {}
        self.batches = []
        self.running = 0
        self.maxrun = 0
        self.tasks = {}
        self.cancelled_by_harness = set()
        self.notes = []
        self.frozen = False


def run_program(make_batcher, calls, st, *, cancels=None, timeouts=None, after=None, linger=0):
    """calls: list of (gap, arg, key|None) - gap = virtual time since the previous arrival.
    cancels: {call index: delay after its arrival at which the harness cancels that caller's task}
    timeouts: {call index: wait_for timeout around the call}
    after: optional coroutine function (b, st) run when all callers are done (fresh calls).
    Returns outcome tuple of vloop.run."""
    cancels = cancels or {}
    timeouts = timeouts or {}

    async def caller(b, i, arg, key):
        loop = aio.get_running_loop()
        st.arrive[i] = loop.time()
        if i in cancels:
            loop.call_later(cancels[i], _cancel, i)
        try:
            coro = b(arg) if key is None else b(arg, key=key)
            if i in timeouts:
                v = await aio.wait_for(coro, timeouts[i])
            else:
                v = await coro
            out = ('ok', v)
        except aio.CancelledError:
            out = ('cancelled',)
        except aio.TimeoutError as e:
            out = ('timeout', e) if i in timeouts else ('exc', e)
        except BaseException as e:  # noqa
            reraise_engine(e)
            if isinstance(e, (GeneratorExit, KeyboardInterrupt, SystemExit, vloop.Deadlock)):
                raise
            out = ('exc', e)
        if st.frozen:
            return  # completion during the harness's own shutdown phase is not an outcome
        st.out[i] = out
        st.done_at[i] = loop.time()

    def _cancel(i):
        t = st.tasks.get(i)
        if t is not None and not t.done():
            st.cancelled_by_harness.add(i)
            t.cancel()

    async def main():
        loop = aio.get_running_loop()
        b = make_batcher()
        st.batcher = b
        for i, (gap, arg, key) in enumerate(calls):
            if gap > 0:
                await aio.sleep(gap)
            st.tasks[i] = loop.create_task(caller(b, i, arg, key))
        await aio.gather(*[st.tasks[i] for i in sorted(st.tasks)], return_exceptions=True)
        if after is not None:
            await after(b, st)
        if linger:
            await aio.sleep(linger)
        lt = getattr(b, '_loop_task', None)
        st.loop_task_done = lt.done() if lt is not None else None
        return True

    def _freeze(outcome):
        st.frozen = True
    outcome, loop = vloop.run(main, before_shutdown=_freeze)
    st.unhandled = list(loop.unhandled)
    return outcome


def hang_devs(st, outcome, n):
    devs = []
    if outcome[0] == 'hang':
        missing = [i for i in range(n) if i not in st.out]
        devs.append('caller-never-completes' if missing else 'program-hangs')
    elif outcome[0] == 'livelock':
        devs.append('busy-loop-without-suspension')
    elif outcome[0] == 'exc':
        devs.append('program-raised:' + type(outcome[1]).__name__)
    elif outcome[0] != 'ok':
        devs.append('loop-' + outcome[0])
    return devs


# =============================================================================== C10
def scen_c10(gaps, dur, mbs, mcb, bt=10, mutate=None, tail=0):
    """distinct keys, every call succeeds. mutate: (at, new_mbs) reassigns max_batch_size at that instant."""
    global LAST_INFO
    st = St()
    n = len(gaps)

    async def f(batch):
        batch = list(batch)
        loop = aio.get_running_loop()
        rec = {'start': loop.time(), 'keys': [k for k, _ in batch], 'end': None}
        st.batches.append(rec)
        st.running += 1
        st.maxrun = max(st.maxrun, st.running)
        await aio.sleep(dur)
        if tail == 0:
            st.running -= 1
            rec['end'] = loop.time()
        for k, v in batch:
            yield k, v
        if tail > 0:     # the execution is still in progress after its last yield (commit / clean-up work)
            await aio.sleep(tail)
            st.running -= 1
            rec['end'] = loop.time()

    def mk():
        b = M.AsyncBackgroundBatcher(f, max_batch_size=mbs, max_concurrent_batches=mcb, batch_timeout=bt)
        if mutate is not None:
            def _set():
                b.max_batch_size = mutate[1]
            aio.get_running_loop().call_later(mutate[0], _set)
        return b

    calls = [(gaps[i], i, None) for i in range(n)]
    outcome = run_program(mk, calls, st)
    devs = hang_devs(st, outcome, n)
    if devs:
        return devs
    for i in range(n):
        if st.out.get(i) != ('ok', i):
            devs.append('wrong-result')
            break
    batches = st.batches
    lim_hi = mbs if mutate is None else max(mbs, mutate[1])
    for b in batches:
        if len(b['keys']) < 1:
            devs.append('empty-batch')
        elif len(b['keys']) > lim_hi:
            devs.append('batch-larger-than-max_batch_size')
    if st.maxrun > mcb:
        devs.append('more-than-max_concurrent_batches-running')
    order = [k for b in batches for k in b['keys']]
    arr = [str(i) for i in range(n)]
    if order != arr:
        devs.append('not-fifo' if sorted(order) == sorted(arr) else 'items-lost-or-duplicated')
        return devs
    if mutate is not None:
        # with a limit change only the size bound in force is judged: a batch handed over after the change may hold the members
        # collected before it plus the one read that was already in flight, otherwise at most the new limit
        t_mut = mutate[0]
        for b in batches:
            first = st.arrive[int(b['keys'][0])]
            if b['start'] < t_mut and len(b['keys']) > mbs:
                devs.append('batch-larger-than-max_batch_size')
            if b['start'] > t_mut:
                k0 = len([k for k in b['keys'] if st.arrive[int(k)] <= t_mut])
                allowed = mutate[1] if k0 == 0 else max(mutate[1], k0 + 1)
                if len(b['keys']) > allowed:
                    devs.append('batch-larger-than-max_batch_size-after-limit-was-lowered')
        return devs
    at = {str(i): st.arrive[i] for i in range(n)}
    where = {k: bi for bi, b in enumerate(batches) for k in b['keys']}
    for a, b_ in zip(arr, arr[1:]):
        gap = at[b_] - at[a]
        if gap < bt and where[a] != where[b_] and len(batches[where[a]]['keys']) < mbs:
            devs.append('arrivals-within-batch_timeout-not-batched-together')
        if gap > bt and where[a] == where[b_]:
            devs.append('batch-held-open-beyond-batch_timeout')
    ends = []
    for bi, b in enumerate(batches):
        last = at[b['keys'][-1]]
        full = len(b['keys']) == mbs
        asm = last if full else last + bt
        slot = 0
        if len(ends) >= mcb:
            slot = sorted(ends)[len(ends) - mcb]
        exp = asm if asm >= slot else slot
        if b['start'] > exp:
            devs.append('batch-dispatched-late')
        if not full and b['start'] < last + bt:
            devs.append('batch-dispatched-before-batch_timeout')
        ends.append(b['end'])
    if not tracing():
        LAST_INFO = {'gaps': list(gaps), 'dur': dur, 'mbs': mbs, 'mcb': mcb, 'bt': bt, 'mutate': mutate,
                     'arrivals': [st.arrive[i] for i in range(n)],
                     'batches': [(b['start'], b['keys'], b['end']) for b in batches]}
    return devs


def twin_c10(gaps, dur):
    """Reachability: 'a second batch had to wait for a concurrency slot' never happens."""
    devs = scen_c10(gaps, dur, 1, 1)
    if devs:
        return []
    return ['reached']


# =============================================================================== C11
class BatchErr(ValueError):
    pass


def scen_c11(gaps, kidx, rt, dur, failmask, explicit_keys=True, bt=2, item_dur=0, names=('a', 'b')):
    """calls over keys a/b; outcome value or exception per key; retention window rt; no cancellation."""
    global LAST_INFO
    st = St()
    n = len(gaps)

    async def f(batch):
        batch = list(batch)
        bid = len(st.batches)
        st.batches.append({'keys': [k for k, _ in batch], 'start': aio.get_running_loop().time()})
        if dur > 0:
            await aio.sleep(dur)
        for k, v in batch:
            if item_dur > 0:
                await aio.sleep(item_dur)
            ki = 0 if k in (names[0], '0') else 1
            if (failmask >> ki) & 1:
                yield k, BatchErr(bid)
            else:
                yield k, ('val', bid, k)

    def mk():
        return M.AsyncBackgroundBatcher(f, batch_timeout=bt, retention_timeout=rt)

    keyof = []
    calls = []
    for i in range(n):
        ki = 0 if kidx[i] == 0 else 1
        keyof.append(ki)
        if explicit_keys:
            calls.append((gaps[i], 100 + i, names[ki]))   # different args, same explicit key
        else:
            calls.append((gaps[i], ki, None))             # key = str(arg)
    outcome = run_program(mk, calls, st, linger=0)
    devs = hang_devs(st, outcome, n)
    if devs:
        return devs
    global RAW
    RAW = {'batches': st.batches}
    for b in st.batches:
        if len(set(b['keys'])) != len(b['keys']):
            devs.append('key-twice-in-one-batch')
    for ki in (0, 1):
        idxs = [i for i in range(n) if keyof[i] == ki]
        cur = None  # (bid, done time of the computation's original caller)
        for i in idxs:
            out = st.out[i]
            if out[0] == 'ok':
                v = out[1]
                if not (isinstance(v, tuple) and len(v) == 3 and v[0] == 'val'):
                    devs.append('wrong-value')
                    continue
                bid = v[1]
                if (failmask >> ki) & 1:
                    devs.append('exception-outcome-returned-as-value')
            elif out[0] == 'exc' and isinstance(out[1], BatchErr):
                bid = out[1].args[0]
                if not (failmask >> ki) & 1:
                    devs.append('unexpected-exception')
            else:
                devs.append('unexpected-outcome:' + out[0])
                continue
            t0 = st.arrive[i]
            if cur is None:
                cur = (bid, st.done_at[i])
                continue
            cbid, cdone = cur
            if t0 < cdone or t0 < cdone + rt:
                if bid != cbid:
                    devs.append('recomputed-inside-retention-window')
            elif t0 > cdone + rt:
                if bid == cbid:
                    devs.append('stale-result-after-retention-window')
                cur = (bid, st.done_at[i])
            else:  # tie: not judged
                if bid != cbid:
                    cur = (bid, st.done_at[i])
    if not tracing():
        LAST_INFO = {'gaps': list(gaps), 'keys': [names[k] for k in keyof], 'rt': rt, 'dur': dur, 'failmask': failmask,
                     'arrive': [st.arrive[i] for i in range(n)], 'done': [st.done_at.get(i) for i in range(n)],
                     'out': [repr(st.out.get(i)) for i in range(n)], 'batches': [b['keys'] for b in st.batches]}
    return devs


def twin_c11(gaps, rt):
    """Reachability: 'a key was recomputed after its window and another call joined inside a window'."""
    devs = scen_c11(gaps, [0, 0, 0], rt, 1, 0)
    if devs:
        return []
    return ['reached'] if len(RAW['batches']) >= 2 and len(RAW['batches']) < 3 else []



# =============================================================================== C04 / C09
class YExc(ValueError):
    """exception instance *yielded* by the batch function for one key"""


class YSub(YExc):
    pass


class BatchFail(RuntimeError):
    """exception *raised* by the batch function itself"""


FRESH_KEYS = ('a', 'b', 'd')
BEH = ('value', 'exc', 'sub', 'omit', 'raise', 'twice', 'unknown', 'stopiter')
KEYS3 = ('a', 'b', 'c')


def _batch_fn(st, beh_of, order_idx, item_dur, batch_dur):
    """harness-owned batch function: behaviour per key, result order, durations."""
    async def f(batch):
        batch = list(batch)
        loop = aio.get_running_loop()
        bid = len(st.batches)
        rec = {'bid': bid, 'start': loop.time(), 'keys': [k for k, _ in batch], 'yields': [], 'raised': None,
               'end': None, 'violation': False}
        st.batches.append(rec)
        st.running += 1
        st.maxrun = max(st.maxrun, st.running)
        try:
            if batch_dur > 0:
                await aio.sleep(batch_dur)
            items = list(batch)
            if order_idx == 1:
                items = items[::-1]
            elif order_idx == 2:
                items = items[1:] + items[:1]
            for k, v in items:
                if item_dur > 0:
                    await aio.sleep(item_dur)
                b = beh_of(k)
                if b == 'value':
                    obj = ('val', bid, k)
                elif b == 'exc':
                    obj = YExc(bid, k)
                elif b == 'sub':
                    obj = YSub(bid, k)
                elif b == 'stopiter':
                    # cannot be raised through a future (PEP 479): the batch counts as protocol-violating,
                    # only completion / no cross-key leakage is required of it (DESIGN 4/C04)
                    rec['violation'] = True
                    obj = StopIteration(bid, k)
                elif b == 'omit':
                    continue
                elif b == 'raise':
                    rec['raised'] = BatchFail(bid)
                    raise rec['raised']
                elif b == 'twice':
                    obj = ('val', bid, k)
                    rec['yields'].append((k, obj))
                    yield k, obj
                    rec['violation'] = True
                    obj = ('val2', bid, k)
                elif b == 'unknown':
                    rec['violation'] = True
                    rec['yields'].append(('zzz', ('val', bid, 'zzz')))
                    yield 'zzz', ('val', bid, 'zzz')
                    obj = ('val', bid, k)
                rec['yields'].append((k, obj))
                yield k, obj
        finally:
            st.running -= 1
            rec['end'] = loop.time()
    return f


def judge_outcomes(st, n, keyof, cancelled, strict_value=False):
    """Necessary conditions N1..N5 of DESIGN 4/C04 on every caller not cancelled by the harness."""
    devs = []
    byid = {}
    for rec in st.batches:
        for pos, (k, obj) in enumerate(rec['yields']):
            byid[id(obj)] = (rec, k, pos)
    fails = {id(rec['raised']): rec for rec in st.batches if rec['raised'] is not None}
    for i in range(n):
        if i in cancelled:
            continue
        k = keyof[i]
        out = st.out.get(i)
        if out is None:
            continue  # reported by hang_devs
        if out[0] == 'ok':
            v = out[1]
            if isinstance(v, BaseException):
                devs.append('exception-object-returned-as-value')
            elif id(v) not in byid:
                devs.append('value-not-produced-by-batch-function')
            else:
                rec, yk, pos = byid[id(v)]
                if yk != k:
                    devs.append('received-value-yielded-for-another-key')
                elif any(kk == k for kk, _ in rec['yields'][:pos]) and not rec['violation']:
                    devs.append('received-later-duplicate-yield')
        elif out[0] == 'exc':
            e = out[1]
            if id(e) in byid:
                rec, yk, pos = byid[id(e)]
                if yk != k:
                    devs.append('received-exception-yielded-for-another-key')
            elif id(e) in fails:
                rec = fails[id(e)]
                if k not in rec['keys']:
                    devs.append('received-failure-of-a-batch-without-its-key')
                elif any(kk == k for kk, _ in rec['yields']):
                    devs.append('answered-caller-received-batch-failure')
            elif isinstance(e, aio.CancelledError):
                devs.append('bystander-cancelled')
            else:
                # generic error: allowed only if some batch with this key omitted it or broke the protocol
                ok = False
                for rec in st.batches:
                    if k in rec['keys'] and (rec['violation'] or (rec['raised'] is None and not any(kk == k for kk, _ in rec['yields']))):
                        ok = True
                if not ok:
                    devs.append('spurious-error:' + type(e).__name__)
        elif out[0] == 'cancelled':
            devs.append('bystander-cancelled')
        else:
            devs.append('unexpected-outcome:' + out[0])
    # completeness: first yield of a key before any failure reaches at least one caller of that key
    for rec in st.batches:
        if rec['violation']:
            continue
        seen = set()
        for (k, obj) in rec['yields']:
            if k in seen or k == 'zzz':
                continue
            seen.add(k)
            if isinstance(obj, StopIteration):
                continue
            callers = [i for i in range(n) if keyof[i] == k and i not in cancelled]
            if not callers:
                continue
            if not any(st.out.get(i) is not None and len(st.out[i]) > 1 and st.out[i][1] is obj for i in callers):
                # the callers of this key may all belong to another batch of the same key
                others = [r for r in st.batches if r is not rec and k in r['keys']]
                if not others:
                    devs.append('yielded-outcome-not-delivered')
        if rec['raised'] is not None:
            unanswered = [k for k in rec['keys'] if not any(kk == k for kk, _ in rec['yields'])]
            for k in unanswered:
                callers = [i for i in range(n) if keyof[i] == k and i not in cancelled]
                others = [r for r in st.batches if r is not rec and k in r['keys']]
                if callers and not others and not any(st.out.get(i) is not None and len(st.out[i]) > 1 and st.out[i][1] is rec['raised'] for i in callers):
                    devs.append('batch-failure-not-delivered-to-unanswered-caller')
    return devs


def scen_c04(gaps, kidx, beh, order_idx, item_dur, batch_dur, mbs, mcb, rt=0, bt=10, via_deco=False):
    """keys chosen by index (repeat), behaviour per key by index into BEH."""
    global LAST_INFO, RAW
    st = St()
    n = len(gaps)
    nb = len(BEH)
    behs = [BEH[pick(b, nb)] for b in beh]
    order_idx = pick(order_idx, 3)
    keyof = [KEYS3[pick(k, 3)] for k in kidx]

    def beh_of(k):
        return behs[KEYS3.index(k)] if k in KEYS3 else 'value'
    f = _batch_fn(st, beh_of, order_idx, item_dur, batch_dur)

    if via_deco:
        deco = M.async_background_batcher(f, max_batch_size=mbs, max_concurrent_batches=mcb, batch_timeout=bt, retention_timeout=rt)

        def mk():
            return deco
    else:
        def mk():
            return M.AsyncBackgroundBatcher(f, max_batch_size=mbs, max_concurrent_batches=mcb, batch_timeout=bt, retention_timeout=rt)
    calls = [(gaps[i], 100 + i, keyof[i]) for i in range(n)]
    outcome = run_program(mk, calls, st)
    RAW = {'batches': st.batches, 'out': st.out}
    devs = []
    if outcome[0] == 'hang':
        for i in range(n):
            if i not in st.out:
                b = beh_of(keyof[i])
                devs.append('caller-never-completes:key-yielded-StopIteration' if b == 'stopiter' else 'caller-never-completes')
        if not devs:
            devs.append('program-hangs')
        devs = sorted(set(devs))
    else:
        devs = hang_devs(st, outcome, n)
    devs += judge_outcomes(st, n, keyof, set())
    if not tracing():
        LAST_INFO = {'gaps': list(gaps), 'keys': keyof, 'behaviour': dict(zip(KEYS3, behs)), 'order': order_idx,
                     'item_dur': item_dur, 'batch_dur': batch_dur, 'mbs': mbs, 'mcb': mcb, 'rt': rt,
                     'out': {i: repr(st.out.get(i)) for i in range(n)},
                     'batches': [(r['start'], r['keys'], [(k, repr(o)) for k, o in r['yields']], repr(r['raised'])) for r in st.batches]}
    return sorted(set(devs))


def twin_c04(gaps, kidx, beh):
    """Reachability: 'a batch raised after answering one caller and left another unanswered'."""
    devs = scen_c04(gaps, kidx, beh, 0, 0, 1, 3, 1)
    if devs:
        return []
    for rec in RAW['batches']:
        if rec['raised'] is not None and rec['yields'] and len(rec['keys']) >= 3:
            return ['reached']
    return []


def scen_c09(gaps, kidx, cancel_delay, who, use_timeout, order_idx, batch_dur, mbs, rt=0, bt=5, fresh=True, who2=-1, cancel_delay2=0, mcb=2):
    """every key yields a value; caller `who` (and optionally `who2`) is cancelled `cancel_delay` after its
    arrival (task.cancel, or wait_for expiry when use_timeout); afterwards fresh calls must be served."""
    global LAST_INFO, RAW
    st = St()
    n = len(gaps)
    keyof = [KEYS3[pick(k, 3)] for k in kidx]
    who = pick(who, n)
    order_idx = pick(order_idx, 3)
    f = _batch_fn(st, lambda k: 'value', order_idx, 0, batch_dur)

    def mk():
        return M.AsyncBackgroundBatcher(f, max_batch_size=mbs, max_concurrent_batches=mcb, batch_timeout=bt, retention_timeout=rt)
    calls = [(gaps[i], 100 + i, keyof[i]) for i in range(n)]
    plan = {who: cancel_delay}
    if who2 >= 0:
        who2 = pick(who2, n)
        if who2 != who:
            plan[who2] = cancel_delay2
    fresh_out = {}

    async def after(b, st_):
        if not fresh:
            return
        for j, k in enumerate(FRESH_KEYS):
            try:
                fresh_out[j] = ('ok', await aio.wait_for(b(500 + j, key=k), 1000))
            except BaseException as e:  # noqa
                reraise_engine(e)
                if isinstance(e, (GeneratorExit, KeyboardInterrupt, SystemExit, vloop.Deadlock)):
                    raise
                fresh_out[j] = ('exc', e)
    if use_timeout:
        outcome = run_program(mk, calls, st, timeouts=plan, after=after)
    else:
        outcome = run_program(mk, calls, st, cancels=plan, after=after)
    RAW = {'batches': st.batches, 'out': st.out}
    # callers the harness disturbed: cancelled by it, or whose own wait_for expired
    disturbed = set(st.cancelled_by_harness)
    for i in plan:
        o = st.out.get(i)
        if use_timeout and o is not None and o[0] == 'timeout':
            disturbed.add(i)
    devs = []
    if outcome[0] == 'hang':
        missing = [i for i in range(n) if i not in st.out]
        if any(i not in plan for i in missing):
            devs.append('bystander-never-completes')
        elif missing:
            devs.append('cancelled-caller-never-completes')
        else:
            devs.append('fresh-call-never-completes' if fresh else 'program-hangs')
    else:
        devs += hang_devs(st, outcome, n)
    for i in range(n):
        if i in disturbed:
            continue
        out = st.out.get(i)
        if out is None:
            continue
        k = keyof[i]
        if out[0] == 'ok':
            v = out[1]
            if not (isinstance(v, tuple) and len(v) == 3 and v[0] == 'val' and v[2] == k):
                devs.append('bystander-wrong-value')
        elif out[0] == 'cancelled' or (out[0] == 'exc' and isinstance(out[1], aio.CancelledError)):
            devs.append('bystander-sharing-key-cancelled' if any(keyof[j] == k for j in disturbed) else 'bystander-cancelled')
        elif out[0] == 'exc':
            devs.append('bystander-got-' + type(out[1]).__name__)
        else:
            devs.append('bystander-' + out[0])
    if outcome[0] == 'ok' and fresh:
        if getattr(st, 'loop_task_done', False):
            devs.append('processing-task-died')
        for j, k in enumerate(FRESH_KEYS):
            o = fresh_out.get(j)
            if o is None or o[0] != 'ok' or not (isinstance(o[1], tuple) and o[1][0] == 'val' and o[1][2] == k):
                devs.append('fresh-call-after-cancellation-not-served')
                break
    if not tracing():
        LAST_INFO = {'gaps': list(gaps), 'keys': keyof, 'cancel': {i: plan[i] for i in plan}, 'kind': 'wait_for' if use_timeout else 'task.cancel',
                     'order': order_idx, 'batch_dur': batch_dur, 'mbs': mbs, 'rt': rt, 'disturbed': sorted(disturbed),
                     'out': {i: repr(st.out.get(i)) for i in range(n)}, 'fresh': {j: repr(v) for j, v in fresh_out.items()},
                     'batches': [(r['start'], r['keys'], r['end']) for r in st.batches]}
    return sorted(set(devs))


def twin_c09(gaps, cancel_delay):
    """Reachability: 'a caller was cancelled while its batch was running' never happens."""
    devs = scen_c09(gaps, [0, 1], cancel_delay, 0, False, 0, 4, 2, fresh=False)
    for rec in RAW['batches']:
        if 0 in RAW['out'] and RAW['out'][0][0] == 'cancelled' and rec['end'] is not None and rec['end'] > rec['start']:
            return ['reached']
    return []


# =============================================================================== cells
def parts(var, ranges):
    """pre-line fragments restricting one symbolic integer to each range of a partition."""
    return ['%d <= %s <= %d' % (lo, var, hi) for lo, hi in ranges]


def product_pre(fragsets):
    """cartesian product of pre-line fragments -> list of (suffix, joined pre)"""
    out = [('', [])]
    for frs in fragsets:
        out = [(sfx + str(i), pre + [f]) for sfx, pre in out for i, f in enumerate(frs)]
    return [(sfx, ' and '.join(pre)) for sfx, pre in out]


def c04_cells(tier):
    out = []
    q = 'quick'
    nb = len(BEH)

    def fam(pat, mbs, mcb, rt, tier_, tmo, b0s=range(len(BEH)), deco=False, gmax=12, order=None, durs=(1, 2), tag='', split=False):
        """one cell per behaviour of the first key; behaviour of the second key, result order (unless fixed),
        durations and gaps symbolic; third key always answers with a value."""
        kid = [KEYS3.index(c) for c in pat]
        for b0 in b0s:
            sig = 'gaps: List[int], b1: int, item_dur: int, batch_dur: int' + ('' if order is not None else ', order_idx: int')
            pre = ['len(gaps) == %d and gaps[0] == 0 and all(0 <= g <= %d for g in gaps)' % (len(pat), gmax),
                   '0 <= b1 <= %d and 0 <= item_dur <= %d and 0 <= batch_dur <= %d' % (nb - 1, durs[0], durs[1])]
            if order is None:
                pre.append('0 <= order_idx <= 2')
            subs = [('', None)]
            if split:
                subs = product_pre([parts('gaps[%d]' % i, [(0, 9), (10, gmax)]) for i in range(1, len(pat))])
            for sfx, extra in subs:
                out.append(Cell(
                    name='c04%s_%s_mbs%d_mcb%d_rt%d_%s%s%s' % (tag, pat, mbs, mcb, rt, BEH[b0], '_deco' if deco else '', '_p' + sfx if sfx else ''),
                    sig=sig, pre=pre + ([extra] if extra else []),
                    body='H.scen_c04(gaps, %r, [%d, b1, 0], %s, item_dur, batch_dur, %d, %d, %d, 10, %r)' % (
                        kid, b0, 'order_idx' if order is None else order, mbs, mcb, rt, deco),
                    tier=tier_, timeout=tmo, family='c04', weight=3 if split else 2))
    # Q1: one batch of three, every pair of behaviours, every result order
    fam('abc', 3, 1, 0, q, 300, gmax=2, durs=(0, 1), tag='_onebatch')
    # Q2: gaps straddle batch_timeout (batches split / overlap), reverse order
    fam('abc', 3, 1, 0, q, 400, b0s=(BEH.index('value'), BEH.index('raise'), BEH.index('omit'), BEH.index('stopiter')),
        order=1, durs=(0, 1), tag='_split', split=True)
    # Q3: repeated key joins the pending request
    fam('aab', 2, 2, 0, q, 300, b0s=(BEH.index('value'), BEH.index('exc'), BEH.index('raise'), BEH.index('twice')),
        gmax=2, durs=(0, 1), tag='_dedupe')
    # Q4: one key requested three times around a retention window, value and exception outcomes
    for b0 in (BEH.index('value'), BEH.index('exc'), BEH.index('raise')):
        for sfx, pre in product_pre([parts('gaps[1]', [(0, 5), (6, 12)]), parts('gaps[2]', [(0, 5), (6, 12)])]):
            out.append(Cell(name='c04_retained_aaa_%s_p%s' % (BEH[b0], sfx), sig='gaps: List[int], rt: int, batch_dur: int',
                            pre=['len(gaps) == 3 and gaps[0] == 0 and 0 <= rt <= 6 and 0 <= batch_dur <= 1', pre],
                            body='H.scen_c04(gaps, [0, 0, 0], [%d, 0, 0], 0, 0, batch_dur, 2, 1, rt, 3, False)' % b0,
                            tier=q, timeout=600, family='c04', weight=3))
    out.append(Cell(name='twin_c04_partial_failure', sig='gaps: List[int], kidx: List[int], beh: List[int]',
                    pre=['len(gaps) == 3 and len(kidx) == 3 and len(beh) == 3 and all(0 <= g <= 3 for g in gaps)',
                         'all(0 <= k <= 2 for k in kidx) and all(0 <= b <= 4 for b in beh)'],
                    body='H.twin_c04(gaps, kidx, beh)', expect='refute', timeout=200, family='c04'))
    if tier == 'thorough':
        fam('abc', 3, 1, 0, 'thorough', 2400, tag='_full', split=True)
        fam('abc', 2, 2, 0, 'thorough', 2400, tag='_full', split=True)
        fam('aab', 2, 2, 0, 'thorough', 2400, tag='_full', split=True)
        fam('aba', 2, 1, 15, 'thorough', 2400, tag='_full', split=True)
        fam('abc', 3, 1, 0, 'thorough', 2400, deco=True, gmax=2, durs=(0, 1), tag='_onebatch')
        fam('abca', 2, 2, 0, 'thorough', 3000, gmax=11, order=2, durs=(0, 1), tag='_four')
    return out


def c09_cells(tier):
    out = []
    q = 'quick'

    def fam(pat, mbs, rt, use_to, tier_, tmo, two=False, orders=(0, 1, 2), gmax=7, cmax=12, whos=None, mcb=2):
        kid = [KEYS3.index(c) for c in pat]
        n = len(pat)
        for who in (whos if whos is not None else range(n)):
            for order in orders:
                sig = 'gaps: List[int], cancel_delay: int, batch_dur: int' + (', who2: int, cancel_delay2: int' if two else '')
                pre = ['len(gaps) == %d and gaps[0] == 0 and all(0 <= g <= %d for g in gaps)' % (n, gmax),
                       '0 <= cancel_delay <= %d and 0 <= batch_dur <= 4' % cmax]
                if two:
                    pre.append('0 <= who2 <= %d and 0 <= cancel_delay2 <= %d' % (n - 1, cmax))
                out.append(Cell(
                    name='c09_%s_mbs%d%s_rt%d_%s_who%d_o%d%s' % (pat, mbs, '' if mcb == 2 else '_mcb%d' % mcb, rt, 'waitfor' if use_to else 'cancel',
                                                               who, order, '_two' if two else ''),
                    sig=sig, pre=pre,
                    body='H.scen_c09(gaps, %r, cancel_delay, %d, %r, %d, batch_dur, %d, %d, 5, True%s%s)' % (
                        kid, who, use_to, order, mbs, rt, ', who2, cancel_delay2' if two else ', -1, 0', ', %d' % mcb),
                    tier=tier_, timeout=tmo, family='c09', weight=2 + n))
    fam('ab', 2, 0, False, q, 300)
    fam('aa', 2, 0, False, q, 300, orders=(0,))
    fam('ab', 2, 0, True, q, 300, orders=(1,))
    fam('aa', 2, 6, False, q, 300, orders=(0,))
    fam('aab', 3, 0, False, q, 400, orders=(2,), gmax=3, cmax=8)
    fam('aaa', 3, 0, False, q, 400, orders=(0,), gmax=4, cmax=8, whos=(0,))
    fam('abc', 1, 0, False, q, 400, orders=(0,), gmax=1, cmax=3, whos=(1, 2), mcb=1)   # smallest limits: everything queues behind one slot
    out.append(Cell(name='twin_c09_cancel_during_batch', sig='gaps: List[int], cancel_delay: int',
                    pre=['len(gaps) == 2 and gaps[0] == 0 and 0 <= gaps[1] <= 7 and 0 <= cancel_delay <= 12'],
                    body='H.twin_c09(gaps, cancel_delay)', expect='refute', timeout=200, family='c09'))
    if tier == 'thorough':
        fam('aa', 2, 0, True, 'thorough', 1500)
        fam('aa', 2, 6, True, 'thorough', 1500)
        fam('aab', 3, 0, False, 'thorough', 2400, orders=(0, 1))
        fam('aab', 2, 6, True, 'thorough', 2400)
        fam('abc', 3, 0, False, 'thorough', 3000, two=True, orders=(1,), gmax=4, cmax=8)
        fam('aba', 3, 0, True, 'thorough', 3000, two=True, orders=(2,), gmax=4, cmax=8)
    return out


def c11_cells(tier):
    out = []
    q = 'quick'
    sig = 'gaps: List[int], rt: int, dur: int'
    for pat in ('aa', 'ab'):
        for fm in (0, 1):
            for ek in (True, False):
                out.append(Cell(name='c11_%s_f%d_%s' % (pat, fm, 'key' if ek else 'str'), sig=sig,
                                pre=['len(gaps) == 2 and gaps[0] == 0 and 0 <= gaps[1] <= 25 and 0 <= rt <= 15 and 0 <= dur <= 3'],
                                body='H.scen_c11(gaps, %r, rt, dur, %d, %r)' % ([0 if c == 'a' else 1 for c in pat], fm, ek),
                                tier=q, timeout=300, family='c11'))
    for pat in ('aaa', 'aab', 'aba'):
        for fm in (0, 1):
            split = [('', '0 <= gaps[2] <= 20 and 0 <= rt <= 15')] if pat == 'aaa' else \
                product_pre([parts('gaps[2]', [(0, 4), (5, 20)] if pat != 'aba' else [(0, 1), (2, 4), (5, 20)]), parts('rt', [(0, 0), (1, 5), (6, 15)])]
                            + [parts('gaps[1]', [(0, 2), (3, 20)])])
            for sfx, pre in split:
                out.append(Cell(name='c11_%s_f%d%s' % (pat, fm, '_p' + sfx if sfx else ''), sig=sig,
                                pre=['len(gaps) == 3 and gaps[0] == 0 and 0 <= gaps[1] <= 20 and 0 <= dur <= 3', pre],
                                body='H.scen_c11(gaps, %r, rt, dur, %d)' % ([0 if c == 'a' else 1 for c in pat], fm),
                                tier=q if (fm == 0 or pat == 'aaa') else 'thorough',
                                timeout=300 if (fm == 0 or pat == 'aaa') else 600, family='c11',
                                weight={'aba': 4, 'aab': 3, 'aaa': 3}[pat]))
    # the empty string is a key like any other (different arguments, same explicit key '')
    out.append(Cell(name='c11_empty_string_key', sig='gaps: List[int], rt: int, dur: int',
                    pre=['len(gaps) == 3 and gaps[0] == 0 and all(0 <= g <= 6 for g in gaps) and 0 <= rt <= 4 and 0 <= dur <= 2'],
                    body="H.scen_c11(gaps, [1, 1, 0], rt, dur, 0, True, 2, 0, ('a', ''))", tier=q, timeout=600, family='c11', weight=3))
    # four calls on one key around two retention windows (a timer armed by an earlier hit must not evict a later request)
    for sfx, pre in product_pre([parts('gaps[2]', [(1, 4), (5, 9)]), parts('gaps[3]', [(1, 5), (6, 10)])]):
        out.append(Cell(name='c11_aaaa_windows_p%s' % sfx, sig='gaps: List[int], rt: int',
                        pre=['len(gaps) == 4 and gaps[0] == 0 and 4 <= gaps[1] <= 11 and 7 <= rt <= 11', pre],
                        body='H.scen_c11(gaps, [0, 0, 0, 0], rt, 1, 0)', tier=q, timeout=600, family='c11', weight=4))
    # a key answered well before its batch ends: its window starts when *it* was answered
    for sfx, pre in product_pre([parts('gaps[2]', [(0, 3), (4, 6), (7, 12)])]):
        out.append(Cell(name='c11_aba_item_durations_p%s' % sfx, sig='gaps: List[int], rt: int, item_dur: int',
                        pre=['len(gaps) == 3 and gaps[0] == 0 and 0 <= gaps[1] <= 1 and 0 <= rt <= 3 and 1 <= item_dur <= 3', pre],
                        body='H.scen_c11(gaps, [0, 1, 0], rt, 0, 0, True, 2, item_dur)', tier=q, timeout=600, family='c11', weight=4))
    if tier != 'thorough':
        out = [c for c in out if c.tier == 'quick']
    out.append(Cell(name='twin_c11_recompute_and_join', sig='gaps: List[int], rt: int',
                    pre=['len(gaps) == 3 and gaps[0] == 0 and all(0 <= g <= 20 for g in gaps) and 0 <= rt <= 15'],
                    body='H.twin_c11(gaps, rt)', expect='refute', timeout=120, family='c11'))
    if tier == 'thorough':
        for pat in ('aaaa', 'aaba', 'abab', 'aabb', 'abba'):
            for fm in (0, 1, 2):
                out.append(Cell(name='c11_%s_f%d' % (pat, fm), sig=sig,
                                pre=['len(gaps) == 4 and gaps[0] == 0 and all(0 <= g <= 20 for g in gaps) and 0 <= rt <= 15 and 0 <= dur <= 3'],
                                body='H.scen_c11(gaps, %r, rt, dur, %d)' % ([0 if c == 'a' else 1 for c in pat], fm),
                                tier='thorough', timeout=2400, family='c11'))
        out.append(Cell(name='c11_aaaaa_f0', sig=sig,
                        pre=['len(gaps) == 5 and gaps[0] == 0 and all(0 <= g <= 12 for g in gaps) and 0 <= rt <= 8 and 0 <= dur <= 2'],
                        body='H.scen_c11(gaps, [0, 0, 0, 0, 0], rt, dur, 0)', tier='thorough', timeout=3000, family='c11'))
    return out


def c10_cells(tier):
    out = []
    q = 'quick'
    for n, mbs, mcb in ((3, 1, 1), (3, 2, 1), (3, 2, 2), (3, 3, 2)):
        out.append(Cell(name='c10_n%d_mbs%d_mcb%d' % (n, mbs, mcb), sig='gaps: List[int], dur: int',
                        pre=['len(gaps) == %d and gaps[0] == 0 and all(0 <= g <= 25 for g in gaps) and 0 <= dur <= 30' % n],
                        body='H.scen_c10(gaps, dur, %d, %d)' % (mbs, mcb), tier=q, timeout=300, family='c10'))
    halves = [(0, 9), (10, 25)]
    for mbs, mcb in ((2, 1), (2, 2)):
        for sfx, pre in product_pre([parts('gaps[1]', halves), parts('gaps[2]', halves), parts('gaps[3]', halves)]):
            isq = (mbs, mcb) == (2, 1) and (sfx.startswith('0') or sfx == '100')
            out.append(Cell(name='c10_n4_mbs%d_mcb%d_p%s' % (mbs, mcb, sfx), sig='gaps: List[int], dur: int',
                            pre=['len(gaps) == 4 and gaps[0] == 0 and 0 <= dur <= 30', pre],
                            body='H.scen_c10(gaps, dur, %d, %d)' % (mbs, mcb), tier=q if isq else 'thorough',
                            timeout=300 if isq else 1200, family='c10'))
    for new in (1, 2, 3):
        for sfx, pre in product_pre([parts('at', [(0, 4), (5, 9), (10, 25)]), parts('dur', [(0, 5), (6, 12)])]):
            isq = not sfx.startswith('2')
            out.append(Cell(name='c10_mutate_n3_new%d_p%s' % (new, sfx), sig='gaps: List[int], dur: int, at: int',
                            pre=['len(gaps) == 3 and gaps[0] == 0 and all(0 <= g <= 12 for g in gaps)', pre],
                            body='H.scen_c10(gaps, dur, 2, 2, 10, (at, %d))' % new, tier=q if isq else 'thorough',
                            timeout=300 if isq else 1200, family='c10'))
    # executions that keep working after their last yield still count against max_concurrent_batches
    out.append(Cell(name='c10_tail_n3_mbs1_mcb1', sig='gaps: List[int], dur: int, tail: int',
                    pre=['len(gaps) == 3 and gaps[0] == 0 and all(0 <= g <= 6 for g in gaps) and 0 <= dur <= 3 and 1 <= tail <= 5'],
                    body='H.scen_c10(gaps, dur, 1, 1, 10, None, tail)', tier=q, timeout=400, family='c10', weight=3))
    # limit lowered from 3 to 1 while a batch is being collected
    for sfx, pre in product_pre([parts('at', [(0, 4), (5, 9)])]):
        out.append(Cell(name='c10_mutate_n3_from3_new1_p%s' % sfx, sig='gaps: List[int], dur: int, at: int',
                        pre=['len(gaps) == 3 and gaps[0] == 0 and all(0 <= g <= 9 for g in gaps) and 0 <= dur <= 3', pre],
                        body='H.scen_c10(gaps, dur, 3, 2, 10, (at, 1))', tier=q, timeout=300, family='c10', weight=3))
    out.append(Cell(name='twin_c10_slot_wait', sig='gaps: List[int], dur: int',
                    pre=['len(gaps) == 2 and gaps[0] == 0 and 0 <= gaps[1] <= 25 and 0 <= dur <= 30'],
                    body='H.twin_c10(gaps, dur)', expect='refute', timeout=90, family='c10'))
    if tier != 'thorough':
        out = [c for c in out if c.tier == 'quick']
    if tier == 'thorough':
        for n, mbs, mcb in ((4, 1, 2), (4, 3, 1), (4, 3, 2), (4, 4, 3), (4, 2, 3)):
            out.append(Cell(name='c10_n%d_mbs%d_mcb%d' % (n, mbs, mcb), sig='gaps: List[int], dur: int',
                            pre=['len(gaps) == %d and gaps[0] == 0 and all(0 <= g <= 25 for g in gaps) and 0 <= dur <= 30' % n],
                            body='H.scen_c10(gaps, dur, %d, %d)' % (mbs, mcb), tier='thorough', timeout=2400, family='c10'))
        thirds = [(0, 9), (10, 10), (11, 25)]
        for mbs, mcb in ((2, 2), (3, 1)):
            for sfx, pre in product_pre([parts('gaps[%d]' % i, halves) for i in (1, 2, 3, 4)] + [parts('dur', [(0, 9), (10, 30)])]):
                out.append(Cell(name='c10_n5_mbs%d_mcb%d_p%s' % (mbs, mcb, sfx), sig='gaps: List[int], dur: int',
                                pre=['len(gaps) == 5 and gaps[0] == 0', pre],
                                body='H.scen_c10(gaps, dur, %d, %d)' % (mbs, mcb), tier='thorough', timeout=1500, family='c10'))
    return out


def cells(prop, tier):
    out = []
    q = 'quick'
    if prop == 'C10':
        out += c10_cells(tier)
    if prop == 'C11':
        out += c11_cells(tier)
    if prop == 'C04':
        out += c04_cells(tier)
    if prop == 'C09':
        out += c09_cells(tier)
    return out


META = {
    'C10': {
        'explanation': 'AsyncBackgroundBatcher from the current /repo/aiuti/asyncio.py on the virtual-time loop; arrival gaps and the batch '
                       'duration are symbolic integers (z3 decides the order of arrivals, batch time-outs, batch ends and slot releases, ties '
                       'included); max_batch_size / max_concurrent_batches fixed per cell; oracle from the harness-owned batch function log: '
                       'size and concurrency limits, FIFO, sharing within batch_timeout, dispatch no later than batch_timeout after the last '
                       'member (once a slot is free), not earlier unless full; ties with batch_timeout not judged.',
        'functions': [('aiuti/asyncio.py', 'AsyncBackgroundBatcher.__call__'), ('aiuti/asyncio.py', 'AsyncBackgroundBatcher._get_next_batch'),
                      ('aiuti/asyncio.py', 'AsyncBackgroundBatcher._process_batch'), ('aiuti/asyncio.py', 'AsyncBackgroundBatcher._processing_loop')],
        'bounds': 'quick: 3..4 calls, gaps 0..25 and batch duration 0..30 around batch_timeout=10, max_batch_size 1..3, max_concurrent 1..2, '
                  'one reassignment of max_batch_size at a symbolic instant; thorough: 5..6 calls, limits up to 5/3',
        'outside': 'more than 6 calls; float time (integer virtual clock); batch functions that fail (C04)',
        'assumptions': ['stock CPython 3.12 asyncio (Queue, Semaphore, wait_for) with a pure-python Task class and an integer clock'],
    },
}


META['C11'] = {
    'explanation': 'AsyncBackgroundBatcher on the virtual-time loop: timed sequences of calls over one or two keys with symbolic gaps, a '
                   'symbolic retention_timeout and batch duration; z3 decides the order of arrivals, batch completion and retention expiry. '
                   'Oracle from the harness-owned batch function (batch identity is carried in every yielded value/exception): no key twice in a '
                   'batch; a call arriving while the key is pending or strictly inside the window joins (same batch identity); a call arriving '
                   'strictly after the window is computed by a later batch; retention 0: recomputed once the original caller was answered. '
                   'Exact ties are not judged.',
    'functions': [('aiuti/asyncio.py', 'AsyncBackgroundBatcher.__call__'), ('aiuti/asyncio.py', 'AsyncBackgroundBatcher._process_batch'),
                  ('aiuti/asyncio.py', 'AsyncBackgroundBatcher._get_next_batch')],
    'bounds': 'quick: 2..3 calls over keys a/b (explicit keys and str(arg) keys), gaps 0..25, retention 0..15 (symbolic, includes 0), batch '
              'duration 0..3, value and exception outcomes; thorough: 4..5 calls',
    'outside': 'cancelled callers (C09); three keys; more than 5 calls',
    'assumptions': ['stock CPython 3.12 asyncio with pure-python Task and integer clock'],
}


META['C04'] = {
    'explanation': 'AsyncBackgroundBatcher on the virtual-time loop with a harness-owned batch function whose behaviour per key is a symbolic '
                   'index into {value, Exception instance, subclass instance, omitted, raise mid-batch, yielded twice, unknown key, '
                   'StopIteration instance}, symbolic result order (forward/reverse/rotated), symbolic per-item and per-batch durations and '
                   'symbolic arrival gaps. Oracle: every caller completes (idle-forever detector); identity of the returned value / raised '
                   'exception object against the log of what was yielded for which key in which batch; batch failures reach exactly the '
                   'unanswered callers; generic errors only for omitted keys or protocol-violating batches.',
    'functions': [('aiuti/asyncio.py', 'AsyncBackgroundBatcher.__call__'), ('aiuti/asyncio.py', 'AsyncBackgroundBatcher._process_batch'),
                  ('aiuti/asyncio.py', 'AsyncBackgroundBatcher._get_next_batch'), ('aiuti/asyncio.py', 'AsyncBackgroundBatcher._processing_loop')],
    'bounds': 'quick: 3 calls, key patterns abc (one batch of 3) and aab (size 2, two concurrent), behaviour of two keys symbolic over the 8 '
              'kinds (third key returns a value), gaps 0..12 around batch_timeout=10, item duration 0..1, batch duration 0..2; thorough: 4 calls, '
              'retention 15, decorator form',
    'outside': 'more than 4 calls; cancellation (C09)',
    'assumptions': ['stock CPython 3.12 asyncio with pure-python Task and integer clock'],
}
META['C09'] = {
    'explanation': 'As C04 with every key answered by a value; one or two callers are cancelled (task.cancel or wait_for expiry) at a symbolic '
                   'delay after their arrival, spanning queued / batch running / after the result; z3 decides the position of the cancellation '
                   'relative to batch assembly, start and end. Oracle: every caller the harness did not disturb returns the value yielded for '
                   'its key; all complete; the processing task is alive and two fresh calls are served afterwards.',
    'functions': META['C10']['functions'],
    'bounds': 'quick: 2..3 callers, key patterns ab / aa / aab, cancel delay 0..12, batch duration 0..4, batch_timeout 5, retention 0 and 6, '
              'all three result orders; thorough: two cancelled callers, 4 callers',
    'outside': 'more than 4 callers; batch functions that fail (C04)',
    'assumptions': ['stock CPython 3.12 asyncio with pure-python Task and integer clock'],
}


def conformance(prop):
    if prop == 'C11':
        assert scen_c11([0, 0, 0], [0, 0, 0], 0, 1, 0) == [], LAST_INFO
        assert scen_c11([0, 5, 20], [0, 0, 0], 10, 1, 1) == [], LAST_INFO
        assert scen_c11([0, 5, 1], [0, 1, 0], 0, 0, 0, False) == [], LAST_INFO
    if prop == 'C10':
        assert scen_c10([0, 0, 0, 0], 5, 2, 5) == [], LAST_INFO
        assert scen_c10([0, 3, 12, 0], 12, 2, 1) == [], LAST_INFO
        assert scen_c10([0, 3, 3], 4, 2, 2, 10, (5, 1)) == [], LAST_INFO
