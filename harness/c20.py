"""C20 - gather_excs / raise_first_exc: exactly the failures, in input order, after all finish.

Symbolic: per-awaitable delay (so z3 decides the completion order, ties included), per-awaitable
outcome index into the cell's outcome alphabet, which API is used.  Fixed per cell: number of
awaitables, the `only` class, the alphabet (three outcome kinds out of five).
"""
import vfw.prelude  # noqa: F401
import asyncio as aio

from vfw.cells import Cell
from vfw import vloop, loader

M = loader.asyncio_S()
LAST_INFO = None
RAW = None


class Base(Exception):
    pass


class Sub(Base):
    pass


class Unrelated(Exception):
    pass


class BaseOnly(BaseException):
    pass


OUTCOMES = ('return', 'Base', 'Sub', 'Unrelated', 'BaseOnly')
EXC = {'Base': Base, 'Sub': Sub, 'Unrelated': Unrelated, 'BaseOnly': BaseOnly}
ONLY = {'default': None, 'BaseException': BaseException, 'Exception': Exception, 'Base': Base, 'Sub': Sub,
        'Unrelated': Unrelated, 'BaseOnly': BaseOnly}


def scen(delays, outs, api, only_name, alphabet, kind='coro'):
    """api False: collect gather_excs; True: raise_first_exc."""
    global LAST_INFO
    devs = []
    n = len(delays)
    raised = [None] * n
    finished = [False] * n
    finish_order = []
    only = ONLY[only_name]

    def which(i):
        o = outs[i]
        if len(alphabet) == 2:
            return alphabet[0] if o == 0 else alphabet[1]
        return alphabet[0] if o == 0 else (alphabet[1] if o == 1 else alphabet[2])

    async def work(i):
        await aio.sleep(delays[i])
        kind_i = which(i)
        finished[i] = True
        finish_order.append(i)
        if kind_i != 'return':
            raised[i] = EXC[kind_i](i)
            raise raised[i]
        return i

    result = {}

    async def main():
        loop = aio.get_running_loop()
        if kind == 'task':
            aws = [loop.create_task(work(i)) for i in range(n)]
        elif kind == 'gen':
            aws = (work(i) for i in range(n))     # one-shot iterable, as the Iterable[Awaitable] signature allows
        else:
            aws = [work(i) for i in range(n)]
        kw = {} if only is None else {'only': only}
        try:
            if api:
                result['ret'] = await M.raise_first_exc(aws, **kw)
                result['raised'] = None
            else:
                got = []
                async for e in M.gather_excs(aws, **kw):
                    if not got:
                        result['all_done_at_first_yield'] = all(finished)
                    got.append(e)
                result['got'] = got
        except BaseException as e:  # noqa
            vfw.prelude.reraise_engine(e)
            if isinstance(e, (aio.CancelledError, vloop.Deadlock, GeneratorExit, KeyboardInterrupt, SystemExit)):
                raise
            result['raised'] = e
        result['finished_at_return'] = list(finished)

    outcome, loop = vloop.run(main)
    flt = BaseException if only is None else only
    expected = [raised[i] for i in range(n) if raised[i] is not None and isinstance(raised[i], flt)]
    if outcome[0] != 'ok':
        devs.append('call-did-not-complete:' + outcome[0])
    else:
        if not all(result.get('finished_at_return', [False])) and n:
            devs.append('returned-before-all-awaitables-finished')
        if api:
            r = result.get('raised')
            if expected:
                if r is None:
                    devs.append('raise_first_exc-did-not-raise')
                elif r is not expected[0]:
                    devs.append('raise_first_exc-raised-wrong-exception')
            else:
                if r is not None:
                    devs.append('raise_first_exc-raised-without-matching-failure')
                elif result.get('ret', 0) is not None:
                    devs.append('raise_first_exc-returned-value')
        else:
            if 'raised' in result:
                devs.append('gather_excs-raised:' + type(result['raised']).__name__)
            else:
                got = result.get('got', [])
                if len(got) != len(expected) or any(a is not b for a, b in zip(got, expected)):
                    if sorted(map(id, got)) == sorted(map(id, expected)):
                        devs.append('gather_excs-wrong-order')
                    else:
                        devs.append('gather_excs-wrong-set')
                if got and not result.get('all_done_at_first_yield', True):
                    devs.append('yielded-before-all-finished')
    if not all(finished):
        devs.append('awaitable-skipped-or-cancelled')
    global RAW
    RAW = {'finish_order': finish_order, 'kinds': [which(i) for i in range(n)]}
    if not vfw.prelude.tracing():
        LAST_INFO = {'delays': list(delays), 'outcomes': [which(i) for i in range(n)], 'only': only_name, 'api': 'raise_first_exc' if api else 'gather_excs',
                 'finish_order': finish_order, 'outcome': outcome[0], 'expected': [repr(e) for e in expected],
                 'got': [repr(e) for e in result.get('got', [])], 'raised': repr(result.get('raised'))}
    return devs


def twin(delays, outs):
    """Reachability: 'two failures whose finishing order is the reverse of the input order'."""
    devs = scen(delays, outs, False, 'default', ('return', 'Base', 'Sub'))
    if devs:
        return []
    fo = RAW['finish_order']
    failing = [i for i in fo if RAW['kinds'][i] != 'return']
    return ['reached'] if len(failing) >= 2 and failing != sorted(failing) else []


ALPHABETS = [('return', 'Base', 'Sub'), ('return', 'Unrelated', 'BaseOnly'), ('Sub', 'Unrelated', 'Base'),
             ('return', 'Sub', 'BaseOnly')]


def _cell(n, only, alpha, tier, timeout, kind='coro', dmax=None, api=None):
    dmax = n if dmax is None else dmax
    return Cell(
        name='gx_n%d_d%d_%s_%s_%s%s' % (n, dmax, only, ''.join(a[0] + a[-1] for a in alpha), kind,
                                       '' if api is None else ('_rfe' if api else '_gx')),
        sig='delays: List[int], outs: List[int]' + (', api: bool' if api is None else ''),
        pre=['len(delays) == %d and len(outs) == %d' % (n, n),
             'all(0 <= d <= %d for d in delays) and all(0 <= o <= %d for o in outs)' % (dmax, len(alpha) - 1)],
        body='H.scen(delays, outs, %s, %r, %r, %r)' % ('api' if api is None else repr(api), only, alpha, kind),
        tier=tier, timeout=timeout, family='gather')


def cells(prop, tier):
    out = []
    for n in (0, 1):
        out.append(_cell(n, 'default', ALPHABETS[0], 'quick', 60))
    for only in ('default', 'Exception', 'Base', 'Sub', 'Unrelated', 'BaseOnly'):
        for alpha in ALPHABETS[:3]:
            out.append(_cell(2, only, alpha, 'quick', 150))
    for only, alpha in (('default', ('Base', 'Sub')), ('Base', ('Unrelated', 'Sub')), ('Sub', ('Base', 'Sub')),
                        ('Exception', ('return', 'BaseOnly')), ('BaseOnly', ('BaseOnly', 'Base'))):
        for api in (False, True):
            out.append(_cell(3, only, alpha, 'quick', 170, dmax=2, api=api))
    out.append(_cell(2, 'Base', ALPHABETS[2], 'quick', 150, kind='task'))
    out.append(_cell(2, 'default', ALPHABETS[0], 'quick', 150, kind='gen'))
    out.append(_cell(2, 'Base', ALPHABETS[2], 'quick', 150, kind='gen'))
    out.append(Cell(name='twin_reverse_order', sig='delays: List[int], outs: List[int]',
                    pre=['len(delays) == 2 and len(outs) == 2', 'all(0 <= d <= 2 for d in delays) and all(0 <= o <= 2 for o in outs)'],
                    body='H.twin(delays, outs)', expect='refute', timeout=90, family='gather'))
    if tier == 'thorough':
        for only in ('default', 'BaseException', 'Exception', 'Base', 'Sub', 'Unrelated', 'BaseOnly'):
            for alpha in ALPHABETS:
                for api in (False, True):
                    out.append(_cell(3, only, alpha, 'thorough', 1500, dmax=2, api=api))
        for only, alpha in (('Base', ('Unrelated', 'Sub')), ('default', ('return', 'Base')), ('BaseOnly', ('BaseOnly', 'Sub')), ('Exception', ('Base', 'BaseOnly'))):
            for api in (False, True):
                out.append(_cell(4, only, alpha, 'thorough', 3000, dmax=2, api=api))
                out.append(_cell(3, only, alpha, 'thorough', 1500, kind='task', dmax=3, api=api))
    return out


META = {'C20': {
    'explanation': 'gather_excs()/raise_first_exc() from the current /repo/aiuti/asyncio.py run on a virtual-time asyncio loop '
                   '(stock BaseEventLoop, integer clock). Per-awaitable delays are symbolic integers, so z3 decides the completion '
                   'order (every permutation and every tie inside the bound); per-awaitable outcomes are symbolic indices into a '
                   '3-letter alphabet of {return, Base, Sub(Base), Unrelated, BaseException-only}. Oracle: identity of the yielded/raised '
                   'exception objects vs. the harness-owned log, input order, run-to-completion of every awaitable.',
    'functions': [('aiuti/asyncio.py', 'gather_excs'), ('aiuti/asyncio.py', 'raise_first_exc')],
    'bounds': 'quick: 0..3 awaitables, delays 0..n (0..2 for n=3), only in {default, Exception, Base, Sub, Unrelated, BaseOnly}; '
              'thorough: 3..4 awaitables, delays 0..3, every `only`, awaitables as coroutines and as tasks',
    'outside': '5 awaitables; awaitables that return exception objects (inherent to gather(return_exceptions=True)); '
               'awaitables cancelled from outside',
    'assumptions': ['asyncio.gather / Task / sleep are the stock CPython 3.12 implementations (pure-python Task class)',
                    'virtual integer time: no float rounding of delays'],
}}


def conformance(prop):
    assert scen([1, 1], [0, 1], False, 'default', ('return', 'Base', 'Sub')) == []
    assert scen([1, 1], [0, 1], True, 'Unrelated', ('return', 'Base', 'Sub')) == []
    assert scen([2, 0], [2, 1], False, 'Base', ('return', 'Base', 'Sub')) == []
