"""C03, C07, C08 - buffer_until_timeout / BufferAsyncCalls on the virtual-time loop (Mode S).

A cell fixes the *shape* of a program (sequence of step kinds); symbolic are: every pause / producer
delay, the duration of the wrapped function, which of its first four invocations raise, the position
at which a producer fails, and (C07) the instant at which the loop is shut down.  z3 decides the
order of submissions, quiet-period timers, function completions, producer steps and wait() calls.

step kinds:  c  plain call            p  pause (next symbolic pause)
             m  map(list of 2)        i  map(iterator of 2, may fail at fp)      e  map(empty list)
             L  map(one-shot iterator of LONG = 100 elements)
             a  await_(awaitable finishing after the next symbolic delay; fails if fp == 0)
             g  amap(async generator of 2, next symbolic delay per element, may fail at fp)
             w/W  await wait(cancel=True/False)      b/B  wait(cancel=True/False) as a concurrent task
"""
import vfw.prelude  # noqa: F401
import asyncio as aio

from vfw.prelude import reraise_engine, tracing
from vfw.cells import Cell
from vfw import vloop, loader
from harness import buffer_t as BT

M = loader.asyncio_S()
LAST_INFO = None
RAW = None
T = 10
LINGER = 400


class ProducerError(KeyError):
    pass


class FuncError(ValueError):
    pass


def run_prog(shape, pauses, dur, fails, fp, *, timeout=T, shutdown_at=None, via_deco=False, form=None):
    """Returns dict with inv (invocations), subs, waits, flags, outcome."""
    R = {'inv': [], 'subs': [], 'waits': [], 'overlap': False, 'hung_waits': 0, 'prod_active': 0}
    pz = list(pauses)
    pi = [0]

    def next_pause():
        v = pz[pi[0]] if pi[0] < len(pz) else 0
        pi[0] += 1
        return v

    async def main():
        loop = aio.get_running_loop()
        running = [0]

        async def f(s):
            n = len(R['inv'])
            rec = {'start': loop.time(), 'set': set(s), 'ok': None, 'end': None}
            R['inv'].append(rec)
            if running[0]:
                R['overlap'] = True
            running[0] += 1
            try:
                await aio.sleep(dur)
            finally:
                running[0] -= 1
                rec['end'] = loop.time()
            if n < len(fails) and fails[n]:
                rec['ok'] = False
                raise FuncError(n)
            rec['ok'] = True
        R['running'] = running
        fm = form or ('options' if via_deco else 'class')
        if fm == 'options':
            b = M.buffer_until_timeout(timeout=timeout)(f)
        elif fm == 'direct':
            b = M.buffer_until_timeout(f, timeout=timeout)
        else:
            b = M.BufferAsyncCalls(f, timeout=timeout)
        nxt = [0]

        def fresh(k=1):
            r = list(range(nxt[0], nxt[0] + k))
            nxt[0] += k
            return r
        pending = []

        async def do_wait(cancel):
            t0 = loop.time()
            before = set(x for _, x, _ in R['subs'])
            await b.wait(cancel=cancel)
            R['waits'].append((t0, loop.time(), before, cancel))

        async def program():
            for kind in shape:
                if kind == 'p':
                    await aio.sleep(next_pause())
                elif kind == 'c':
                    x, = fresh()
                    R['subs'].append((loop.time(), x, 'imm'))
                    b(x)
                elif kind == 'r':     # the most recent argument is submitted again (same value)
                    if nxt[0] > 0:
                        x = nxt[0] - 1
                        R['subs'].append((loop.time(), x, 'imm'))
                        b(x)
                elif kind == 'k':     # an awaitable producer that ends in CancelledError (e.g. a task cancelled by its owner)
                    d = next_pause()

                    async def awk(d=d):
                        await aio.sleep(d)
                        raise aio.CancelledError()
                    b.await_(awk())
                elif kind == 'm':
                    xs = fresh(2)
                    for x in xs:
                        R['subs'].append((loop.time(), x, 'imm'))
                    b.map(list(xs))
                elif kind == 'e':
                    b.map([])
                elif kind == 'i':
                    xs = fresh(2)

                    def gen(xs=xs):
                        for i, x in enumerate(xs):
                            if i == fp:
                                raise ProducerError(i)
                            yield x
                    for i, x in enumerate(xs):
                        if fp < 0 or i < fp:
                            R['subs'].append((loop.time(), x, 'slow'))
                    b.map(gen())
                elif kind == 'L':     # map(long one-shot iterator): far more elements than any plausible read-ahead limit of the bridge
                    xs = fresh(LONG)
                    for x in xs:
                        R['subs'].append((loop.time(), x, 'slow'))
                    b.map(iter(xs))
                elif kind == 'a':
                    x, = fresh()
                    d = next_pause()

                    async def aw(x=x, d=d):
                        R['prod_active'] += 1
                        try:
                            await aio.sleep(d)
                        finally:
                            R['prod_active'] -= 1
                        if fp == 0:
                            raise ProducerError(x)
                        return x
                    if fp != 0:
                        R['subs'].append((loop.time(), x, 'slow'))
                    b.await_(aw())
                elif kind == 'g':
                    xs = fresh(2)
                    d = next_pause()

                    async def agen(xs=xs, d=d):
                        for i, x in enumerate(xs):
                            R['prod_active'] += 1
                            try:
                                await aio.sleep(d)
                            finally:
                                R['prod_active'] -= 1
                            if i == fp:
                                raise ProducerError(i)
                            yield x
                    for i, x in enumerate(xs):
                        if fp < 0 or i < fp:
                            R['subs'].append((loop.time(), x, 'slow'))
                    b.amap(agen())
                elif kind in ('b', 'B'):
                    pending.append(loop.create_task(do_wait(kind == 'b')))
                elif kind in ('w', 'W'):
                    await do_wait(kind == 'w')
        if shutdown_at is not None:
            pt = loop.create_task(program())
            await aio.sleep(shutdown_at)
            R['at_shutdown'] = {'func_running': running[0] > 0, 'producer_active': R['prod_active'] > 0,
                                'undelivered': _undelivered(R), 'program_done': pt.done()}
            return 'shutdown'
        await program()
        await aio.sleep(LINGER)
        hung = [p for p in pending if not p.done()]
        R['hung_waits'] = len(hung)
        for p in hung:
            p.cancel()
        return 'end'

    outcome, loop = vloop.run(main)
    R['outcome'] = outcome
    return R


def _undelivered(R):
    okinv = [r for r in R['inv'] if r['ok']]
    delivered = set()
    for r in okinv:
        delivered |= r['set']
    return sorted(x for _, x, _ in R['subs'] if x not in delivered)


def _common(R):
    devs = []
    o = R['outcome']
    if o[0] == 'hang':
        devs.append('program-hangs')     # an awaited wait() never returned / loop idle forever
    elif o[0] == 'livelock':
        devs.append('busy-loop-without-suspension')
    elif o[0] == 'exc':
        devs.append('program-raised:' + type(o[1]).__name__)
    return devs


def judge_c03(R, fails):
    devs = []
    o = R['outcome']
    if o[0] in ('livelock',):
        return ['busy-loop-without-suspension']
    if o[0] == 'exc':
        return ['submission-raised:' + type(o[1]).__name__]
    inv, subs = R['inv'], R['subs']
    submitted = set(x for _, x, _ in subs)
    okinv = [r for r in inv if r['ok']]
    delivered = set()
    for r in okinv:
        delivered |= r['set']
    can_succeed = (not all(fails[:len(inv)])) or len(inv) > len(fails) or not inv
    if can_succeed and submitted - delivered:
        devs.append('argument-lost')
    for r in inv:
        if r['set'] - submitted:
            devs.append('function-received-unsubmitted-argument')
            break
    for x in submitted:
        if sum(1 for r in okinv if x in r['set']) > sum(1 for _, y, _ in subs if y == x):
            devs.append('argument-delivered-to-two-successful-calls')
            break
    return devs


def judge_c07(R):
    devs = []
    o = R['outcome']
    if o[0] == 'hang' or R['hung_waits']:
        devs.append('wait-never-returns')
    elif o[0] == 'livelock':
        devs.append('busy-loop-without-suspension')
    elif o[0] == 'exc':
        devs.append('wait-raised:' + type(o[1]).__name__)
    okinv = [r for r in R['inv'] if r['ok']]
    for (t0, t1, before, cancel) in R['waits']:
        d = set()
        for r in okinv:
            if r['end'] <= t1:
                d |= r['set']
        if before - d:
            devs.append('wait-returned-before-earlier-submission-was-delivered')
            break
    return devs


def judge_c07_shutdown(R):
    o = R['outcome']
    if o[0] in ('shutdown-hang', 'shutdown-livelock'):
        st = R.get('at_shutdown', {})
        if st.get('func_running'):
            return ['shutdown-never-terminates:function-running']
        if st.get('producer_active'):
            return ['shutdown-never-terminates:producer-loading']
        if st.get('undelivered'):
            return ['shutdown-never-terminates:arguments-pending']
        return ['shutdown-never-terminates:idle']
    if o[0] == 'hang':
        return ['program-hangs']
    if o[0] not in ('ok',):
        return ['shutdown-' + o[0]]
    return []


def judge_c08(R, shape, timeout=T):
    devs = []
    if R['outcome'][0] == 'livelock':
        return ['busy-loop-without-suspension']
    inv, subs = R['inv'], R['subs']
    if R['overlap']:
        devs.append('function-running-twice-at-once')
    if any(not r['set'] for r in inv):
        devs.append('function-called-with-empty-set')
    if R['outcome'][0] != 'ok':
        return devs
    if any(k in 'iagwbEk' for k in shape):
        return devs  # debounce timing is only judged for immediate submissions without forced flush
    times = []
    for t, _, _ in subs:
        if not times or t != times[-1]:
            times.append(t)
    bursts = []
    cur = []
    for t in times:
        if cur and t - cur[-1] < timeout:
            cur.append(t)
        elif cur and t - cur[-1] == timeout:
            return devs  # exact tie with the timer: not judged
        else:
            if cur:
                bursts.append(cur)
            cur = [t]
    if cur:
        bursts.append(cur)
    for bu in bursts:
        lo, hi = bu[0], bu[-1]
        if any(r['end'] is None for r in inv):
            return devs
        if any(r['start'] == t for r in inv for t in bu):
            continue  # an invocation started at the very instant of an arrival: tie with a timer, not judged
        if any(r['end'] > lo and r['start'] < hi + timeout for r in inv if r['start'] != hi + timeout):
            started_inside = [r for r in inv if lo <= r['start'] < hi + timeout]
            busy_before = [r for r in inv if r['start'] < lo and r['end'] > lo]
            if started_inside and not busy_before and not any(
                    r['ok'] is False and r['end'] <= hi + timeout and r['end'] >= lo - timeout for r in inv):
                devs.append('function-called-before-quiet-period-elapsed')
            continue
        args = set(x for t, x, _ in subs if lo <= t <= hi)
        at = [r for r in inv if r['start'] == hi + timeout]
        if len(at) != 1 or not args <= at[0]['set']:
            devs.append('burst-not-delivered-in-one-call-after-quiet-period')
    return devs


def _info(R, shape, pauses, dur, fails, fp, extra=None):
    global LAST_INFO
    if tracing():
        return
    LAST_INFO = {'shape': shape, 'pauses': list(pauses), 'dur': dur, 'fails': list(fails), 'fp': fp,
                 'outcome': repr(R['outcome']), 'subs': R['subs'],
                 'invocations': [(r['start'], sorted(r['set']), r['ok'], r['end']) for r in R['inv']],
                 'waits': [(a, b_, sorted(c), d) for a, b_, c, d in R['waits']], 'hung_waits': R['hung_waits'],
                 'at_shutdown': R.get('at_shutdown')}
    if extra:
        LAST_INFO.update(extra)


def scen(prop, shape, pauses, dur, fails, fp, via_deco=False, timeout=T):
    global RAW
    R = run_prog(shape, pauses, dur, fails, fp, via_deco=via_deco, timeout=timeout)
    RAW = R
    if prop == 'C03':
        devs = judge_c03(R, fails)
    elif prop == 'C07':
        devs = judge_c07(R)
    else:
        devs = judge_c08(R, shape, timeout)
    _info(R, shape, pauses, dur, fails, fp)
    return sorted(set(devs))


def scen_shutdown(shape, pauses, dur, fails, fp, at):
    global RAW
    R = run_prog(shape, pauses, dur, fails, fp, shutdown_at=at)
    RAW = R
    devs = judge_c07_shutdown(R)
    _info(R, shape, pauses, dur, fails, fp, {'shutdown_at': at})
    return devs


def twin(prop, shape, pauses, dur, fails):
    """Reachability twins: the interesting situation of each property 'never happens'."""
    R = run_prog(shape, pauses, dur, fails, -1)
    if R['outcome'][0] != 'ok':
        return []
    if prop == 'C03':   # a failed invocation was retried and another submission arrived in between
        return ['reached'] if any(r['ok'] is False for r in R['inv']) and len(R['inv']) >= 2 else []
    if prop == 'C07':   # a wait() was issued while the function was running
        for (t0, t1, before, c) in R['waits']:
            if any(r['start'] <= t0 < r['end'] for r in R['inv'] if r['end'] is not None and r['end'] > r['start']):
                return ['reached']
        return []
    # C08: two bursts -> two calls, and one burst of >= 2 arrivals at distinct instants
    return ['reached'] if len(R['inv']) >= 2 and any(len(r['set']) >= 2 for r in R['inv']) else []


# ------------------------------------------------------------------------------------ cells
def _cell(prop, shape, tier, tmo, dmax=25, pmax=25, fp=None, weight=2, deco=False, nfail=2, split=0):
    """split=1: partition every pause into [0,9] / [10,pmax]; split=2: also the duration."""
    from harness.batcher import parts, product_pre
    npz = sum(1 for k in shape if k in 'pagk')
    has_prod = any(k in 'iag' for k in shape)
    sig = 'pauses: List[int], dur: int, fails: List[bool]' + (', fp: int' if has_prod and fp is None else '')
    base = 'len(pauses) == %d and len(fails) == %d' % (npz, nfail)
    frs = []
    for i in range(npz):
        frs.append(parts('pauses[%d]' % i, [(0, 9), (10, pmax)] if split < 3 else [(0, 9), (10, 12), (13, pmax)]) if split >= 1 else ['0 <= pauses[%d] <= %d' % (i, pmax)])
    frs.append(parts('dur', [(0, 9), (10, dmax)]) if split >= 2 else ['0 <= dur <= %d' % dmax])
    fpx = 'fp' if (has_prod and fp is None) else repr(-1 if fp is None else fp)
    out = []
    for sfx, pre in product_pre(frs):
        pres = [base, pre]
        if has_prod and fp is None:
            pres.append('-1 <= fp <= 1')
        out.append(Cell(name='%s_%s%s%s' % (prop.lower(), shape, '_deco' if deco else '', ('_p' + sfx) if split else ''), sig=sig, pre=pres,
                        body='H.scen(%r, %r, pauses, dur, fails, %s, %r)' % (prop, shape, fpx, deco),
                        tier=tier, timeout=tmo, family=prop.lower(), weight=weight + (2 if split else 0)))
    return out


# shape -> split level (0 none, 1 pauses, 2 pauses and duration)
LONG = 100
QUICK_SHAPES = {
    'C03': {'cwc': 0, 'ckpc': 0, 'kpc': 0, 'cpwpc': 0, 'cpc': 0, 'cpcw': 0, 'mpc': 0, 'ipc': 0, 'apc': 2, 'cpa': 2, 'epc': 0},
    'C07': {'cwpcw': 0, 'ckw': 0, 'kpcW': 0, 'cw': 0, 'cW': 0, 'cpw': 0, 'cpW': 0, 'cpcw': 0, 'cbpw': 0, 'cBpc': 0, 'aw': 0, 'gW': 0, 'ew': 0, 'cpbpB': 2, 'ipw': 0},
    'C08': {'e': 0, 'epe': 0, 'cprpr': 2, 'cpc': 0, 'cpcpc': 3, 'mpc': 0, 'cpm': 0, 'cpW': 0, 'ce': 0, 'cpcW': 0},
}
THOROUGH_SHAPES = {
    'C03': ['gpc', 'cpgw', 'cpcpc', 'cpcpcw', 'mpipc', 'gpapc', 'cpgpcw', 'ipgpa', 'cpcpWpc', 'apcpb', 'cpcpcpc'],
    'C07': ['cpcpw', 'cpwpcpw', 'cbpcpW', 'gpwpc', 'apbpW', 'cpBpbpc', 'ipWpcw', 'cpcpbpcpw', 'epw', 'cwcpw'],
    'C08': ['cpcpcpc', 'mpmpc', 'cpcpW', 'cpmpcpc', 'cpcpcpcpc'],
}


def cells(prop, tier):
    out = []
    for sh, sp in QUICK_SHAPES[prop].items():
        out += _cell(prop, sh, 'quick', 300, split=sp)
    if prop == 'C03':
        # long one-shot iterator through map() (read-ahead limits / dropped hand-overs in the sync->async bridge); narrow timing ranges
        for c in _cell(prop, 'Lpc', 'quick', 900, dmax=2, pmax=12, weight=4):
            out.append(c)
        out += _cell(prop, 'cpc', 'quick', 300, deco=True)
        for fpv in (-1, 1):     # async-generator producer: failure position fixed per cell
            for c in _cell(prop, 'gpc', 'quick', 300, fp=fpv, split=2):
                c.name += '_fp%d' % (fpv + 1)
                out.append(c)
    if prop == 'C07':
        from harness.batcher import parts, product_pre
        for sh, tr in (('c', 'quick'), ('cpc', 'thorough'), ('a', 'quick'), ('cpcpc', 'thorough'), ('cpa', 'thorough'), ('gpc', 'thorough')):
            if tr == 'thorough' and tier != 'thorough':
                continue
            npz = sum(1 for k in sh if k in 'pagk')
            for sfx, pre in product_pre([parts('at', [(0, 9), (10, 19), (20, 45)]), parts('dur', [(0, 9), (10, 15)])]):
                out.append(Cell(name='c07_shutdown_%s_p%s' % (sh, sfx), sig='pauses: List[int], dur: int, fails: List[bool], at: int',
                                pre=['len(pauses) == %d and all(0 <= p <= 15 for p in pauses) and len(fails) == 1' % npz, pre],
                                body='H.scen_shutdown(%r, pauses, dur, fails, -1, at)' % sh, tier=tr,
                                timeout=300 if tr == 'quick' else 3000, family='c07', weight=3))
    if prop in ('C03', 'C07'):      # foreign-thread part (Mode T), see harness/buffer_t.py
        for c in BT.cells(prop, tier):
            c.body = c.body.replace('H.', 'H.BT.')
            out.append(c)
    tw = {'C03': 'cpc', 'C07': 'cpcpw', 'C08': 'cpcpc'}[prop]
    npz = sum(1 for k in tw if k in 'pagk')
    out.append(Cell(name='twin_%s' % prop.lower(), sig='pauses: List[int], dur: int, fails: List[bool]',
                    pre=['len(pauses) == %d and all(0 <= p <= 25 for p in pauses) and 0 <= dur <= 25 and len(fails) == 2' % npz],
                    body='H.twin(%r, %r, pauses, dur, fails)' % (prop, tw), expect='refute', timeout=200, family=prop.lower()))
    if tier == 'thorough':
        for sh in THOROUGH_SHAPES[prop]:
            out += _cell(prop, sh, 'thorough', 3000, nfail=3, split=1)
        for sh in list(QUICK_SHAPES[prop])[:4]:
            for c in _cell(prop, sh, 'thorough', 3000, nfail=4):
                c.name += '_f4'
                out.append(c)
    return out


_FUNCS = [('aiuti/asyncio.py', 'BufferAsyncCalls._process_queue'), ('aiuti/asyncio.py', 'BufferAsyncCalls._run_func'),
          ('aiuti/asyncio.py', 'BufferAsyncCalls.wait'), ('aiuti/asyncio.py', 'BufferAsyncCalls._put'),
          ('aiuti/asyncio.py', 'BufferAsyncCalls._empty_queue'), ('aiuti/asyncio.py', 'BufferAsyncCalls.__init__'),
          ('aiuti/asyncio.py', 'buffer_until_timeout'), ('aiuti/asyncio.py', 'to_async_iter')]
_ASSUME = ['stock CPython 3.12 asyncio with pure-python Task and integer clock',
           'sync iterators handed to map() are drained by an inline executor (one legal schedule of the helper thread); '
           'other schedules of that thread belong to the Mode T cells']
_ASSUME_T = ['foreign-thread cells (Mode T, harness/buffer_t.py): one foreign thread submits two arguments (plain call, map) after symbolic delays and '
             '(C07) calls wait_from_anywhere(cancel=True/False) from its own loop; BufferAsyncCalls methods, ensure_aw and run_aw_threadsafe carry '
             'scheduling points; every single pre-emption position, statement-level atomicity, VLock/executor stubs']
META = {
    'C03': {'explanation': 'Foreign-thread part: see assumptions. BufferAsyncCalls from the current source on the virtual-time loop. Program shapes (plain call / await_ / map(list) / '
                           'map(iterator) / amap / wait) are fixed per cell; pauses, producer delays, function duration, failure bits of the '
                           'first invocations and the producer failure position are symbolic. After a long quiet linger every submitted '
                           'argument (including the prefix a failing producer yielded) must be in a successful invocation, exactly one for '
                           'loop-thread arguments, and the function only ever saw submitted arguments.',
            'functions': _FUNCS + BT.FUNCS, 'bounds': 'quick: programs of 3-4 steps (11 shapes), pauses 0..25 around timeout=10, function duration 0..25, any '
            'subset of the first 2 invocations failing, producer failure position in {none,0,1}; thorough: 5-7 steps, first 3-4 invocations',
            'outside': 'two foreign threads and symbolic function duration only in thorough; more than 7 steps', 'assumptions': _ASSUME + _ASSUME_T},
    'C07': {'explanation': 'Foreign-thread part: see assumptions. Same engine with wait(cancel=True/False) awaited or running concurrently at symbolic instants: when a wait() returns, '
                           'everything submitted before it was called is in a successful invocation that has ended; every wait() returns '
                           '(idle-forever detector). Shutdown: the loop is shut down the way asyncio.run does (cancel all tasks, run until '
                           'they finish) at a symbolic instant; termination is decided by the idle-forever detector.',
            'functions': _FUNCS + BT.FUNCS + [('aiuti/asyncio.py', 'DaemonTask'), ('aiuti/asyncio.py', 'BufferAsyncCalls._waiter')],
            'bounds': 'quick: 12 program shapes of 2-5 steps with 1-2 waits, pauses 0..25, duration 0..25, first 2 invocations may fail; shutdown '
            'instant 0..60 over 4 shapes; thorough: longer shapes, 3-4 failing invocations',
            'outside': 'more than two foreign threads', 'assumptions': _ASSUME + _ASSUME_T},
    'C08': {'explanation': 'Same engine, immediate submissions only (plain calls, map(list)), no forced flush: invocations never overlap, never '
                           'receive an empty set; a maximal burst of arrivals each < timeout after the previous, inside an idle period, is '
                           'delivered by exactly one invocation starting timeout after the last arrival and none earlier. Exact ties between an '
                           'arrival and the timer are not judged; nothing is asserted about arrivals while the function runs or is being retried.',
            'functions': _FUNCS, 'bounds': 'quick: 7 shapes of 2-5 steps, pauses 0..25, duration 0..25, first 2 invocations may fail; thorough: up '
            'to 9 steps', 'outside': 'timeouts other than 10 (C15 varies the option); delayed producers', 'assumptions': _ASSUME},
}


def conformance(prop):
    if prop in ('C03', 'C07'):
        BT.conformance(prop)
    # the repository's doctest programs, in virtual time
    R = run_prog('ccccc', [], 0, [False], -1)
    assert [sorted(r['set']) for r in R['inv']] == [[0, 1, 2, 3, 4]] and R['inv'][0]['start'] == 10, R['inv']
    R = run_prog('cccccw', [], 0, [False], -1)
    assert [sorted(r['set']) for r in R['inv']] == [[0, 1, 2, 3, 4]] and R['waits'] and R['waits'][0][1] == 0, (R['inv'], R['waits'])
    R = run_prog('gw', [0], 0, [False], -1)
    assert [sorted(r['set']) for r in R['inv']] == [[0, 1]], R['inv']
    assert scen(prop, 'cpcw', [3], 4, [True, False], -1) == [], LAST_INFO
