"""Mode S runtime: a virtual-time asyncio event loop.

The clock is an integer (possibly symbolic).  When the loop has nothing ready it jumps to the
next timer; `select(None)` with nothing scheduled means the loop would sleep forever, which
is the harness's hang detector.  Everything else is the stock `asyncio.BaseEventLoop`.
"""
import asyncio
import heapq
from asyncio import events, tasks as _tasks

from vfw.prelude import is_engine_exc, refuel, StepBound


ITERATION_BOUND = 1500   # loop iterations per scenario: endless retry loops in virtual time end here


class Deadlock(Exception):
    """The loop would block forever: nothing ready, no timer."""


class _VSel:
    def __init__(self, loop):
        self.loop = loop
        self.n = 0

    def select(self, timeout):
        self.n += 1
        if self.n > ITERATION_BOUND:
            raise Deadlock('no quiescence within %d loop iterations at t=%r' % (ITERATION_BOUND, self.loop._vtime))
        if timeout is None:
            raise Deadlock('loop idle forever at t=%r' % (self.loop._vtime,))
        if timeout > 0:
            self.loop._vtime = self.loop._vtime + timeout
        return []

    def close(self):
        pass


class PyTask(_tasks._PyTask):
    """Pure-python Task: engine exceptions are not swallowed into the task's result."""
    _serial_counter = [0]

    def __init__(self, coro, *, loop=None, **kw):
        PyTask._serial_counter[0] += 1
        self.serial = PyTask._serial_counter[0]
        super().__init__(coro, loop=loop, **kw)
        reg = getattr(self._loop, 'vtasks', None)
        if reg is not None:
            reg.append(self)

    def _Task__step(self, exc=None):
        refuel()
        _tasks._PyTask._Task__step(self, exc)
        if self.done() and not self.cancelled():
            e = self._exception
            if e is not None and is_engine_exc(e):
                self._Future__log_traceback = False
                raise e

    def __del__(self):  # no "never retrieved" logging (would call repr() under the engine)
        pass


class VLoop(asyncio.BaseEventLoop):
    def __init__(self, t0=0):
        super().__init__()
        self._vtime = t0
        self._selector = _VSel(self)
        self._clock_resolution = 1
        self.vtasks = []
        self.unhandled = []
        self.set_task_factory(lambda loop, coro, **kw: PyTask(coro, loop=loop, **kw))

    def time(self):
        return self._vtime

    def _process_events(self, event_list):
        pass

    def _write_to_self(self):
        pass

    def call_exception_handler(self, context):
        e = context.get('exception')
        if e is not None and is_engine_exc(e):
            raise e
        self.unhandled.append((context.get('message'), type(e).__name__ if e is not None else None))

    def pending_tasks(self):
        return sorted((t for t in self.vtasks if not t.done()), key=lambda t: t.serial)


def run(main_factory, *, loop=None, shutdown=True, result=None, before_shutdown=None, close=True):
    """Mirror of asyncio.run on a VLoop.

    main_factory: callable returning the main coroutine (called with the loop current).
    Returns (outcome, loop) where outcome is ('ok', value) | ('exc', e) | ('hang', where).
    With shutdown=True leftovers are cancelled in serial order and awaited, as asyncio.run does;
    a hang during that phase is reported as ('shutdown-hang', ...).
    """
    loop = loop or VLoop()
    asyncio.set_event_loop(loop)
    outcome = None
    try:
        try:
            outcome = ('ok', loop.run_until_complete(main_factory()))
        except Deadlock as d:
            outcome = ('hang', str(d))
        except StepBound as d:
            outcome = ('livelock', str(d))
        except Exception as e:  # noqa
            outcome = ('exc', e)
        if before_shutdown is not None:
            before_shutdown(outcome)
        if shutdown:
            try:
                pend = loop.pending_tasks()
                for t in pend:
                    t.cancel()
                if pend:
                    loop.run_until_complete(asyncio.gather(*pend, return_exceptions=True))
                loop.run_until_complete(loop.shutdown_asyncgens())
            except Deadlock as d:
                if outcome[0] not in ('hang', 'livelock'):
                    outcome = ('shutdown-hang', str(d))
            except StepBound as d:
                if outcome[0] not in ('hang', 'livelock'):
                    outcome = ('shutdown-livelock', str(d))
            except RuntimeError as e:
                if outcome[0] not in ('hang', 'livelock'):
                    outcome = ('shutdown-error', repr(e))
    finally:
        asyncio.set_event_loop(None)
        events._set_running_loop(None)
        if close:
            close_leftovers(loop)
            try:
                loop.close()
            except Exception:  # noqa
                pass
    return outcome, loop


def close_leftovers(loop):
    """Close coroutines of tasks still pending, now and deterministically (otherwise the GC would
    do it in the middle of a later path and run the repository's `finally` blocks there)."""
    for t in sorted((t for t in loop.vtasks if not t.done()), key=lambda t: -t.serial):
        try:
            t._coro.close()
        except BaseException as e:  # noqa
            if is_engine_exc(e) and not isinstance(e, StepBound):
                raise
    loop.vtasks = []
