"""Loads aiuti modules from /repo's *current* source through the AST passes of DESIGN.md 3.2.

P0  engine pass-through in every catch-all handler (both modes)
P1  rebinding of environment names after each module-level import (table given by the caller)
Mode T passes (P2/P3) live in vfw/vt/transform.py and are chained in through `extra_passes`.
"""
import ast
import os
import sys
import types

import vfw.prelude as _prelude

REPO = _prelude.REPO


class P0(ast.NodeTransformer):
    """`except BaseException` / bare `except:` handlers first let engine exceptions through."""

    @staticmethod
    def _catches_all(h):
        t = h.type
        if t is None:
            return True
        names = []
        for n in (t.elts if isinstance(t, ast.Tuple) else [t]):
            if isinstance(n, ast.Name):
                names.append(n.id)
            elif isinstance(n, ast.Attribute):
                names.append(n.attr)
        return 'BaseException' in names

    def visit_ExceptHandler(self, h):
        self.generic_visit(h)
        if self._catches_all(h):
            call = ast.Expr(ast.Call(ast.Attribute(ast.Name('_vf', ast.Load()), 'reraise_engine', ast.Load()), [], []))
            h.body.insert(0, ast.copy_location(call, h))
        return h


class PFuel(ast.NodeTransformer):
    """`_vf.tick()` at the top of every loop body: deterministic busy-loop detector."""

    def _loop(self, n):
        self.generic_visit(n)
        call = ast.Expr(ast.Call(ast.Attribute(ast.Name('_vf', ast.Load()), 'tick', ast.Load()), [], []))
        n.body.insert(0, ast.copy_location(call, n))
        return n
    visit_While = visit_For = visit_AsyncFor = _loop


class P1(ast.NodeTransformer):
    """After every module-level import statement: `_vf_rebind(globals())`."""

    def visit_Module(self, n):
        body = []
        for s in n.body:
            body.append(s)
            if isinstance(s, (ast.Import, ast.ImportFrom)) and not (isinstance(s, ast.ImportFrom) and s.module == '__future__'):
                body.append(ast.copy_location(ast.Expr(ast.Call(ast.Name('_vf_rebind', ast.Load()), [ast.Call(ast.Name('globals', ast.Load()), [], [])], [])), s))
        n.body = body
        return n


class ClassBases(ast.NodeTransformer):
    def __init__(self, table):
        self.table = table

    def visit_ClassDef(self, n):
        self.generic_visit(n)
        if n.name in self.table:
            n.bases = [ast.Name(self.table[n.name], ast.Load())]
        return n


def load(relpath, modname, *, rebind=None, class_bases=None, extra_passes=(), inject=None, package='aiuti', fuel=True):
    """Compile /repo/<relpath> as it is on disk now into a fresh module object.

    rebind      {global name: replacement} applied after each module-level import
    class_bases {class name: injected global name} replaces the bases of that class
    inject      {name: object} extra globals (must include the objects named in class_bases)
    """
    path = os.path.join(REPO, relpath)
    src = open(path).read()
    tree = ast.parse(src, path)
    tree = P0().visit(tree)
    if fuel:
        tree = PFuel().visit(tree)
    for p in extra_passes:
        tree = p.visit(tree)
    tree = P1().visit(tree)
    if class_bases:
        tree = ClassBases(class_bases).visit(tree)
    ast.fix_missing_locations(tree)
    mod = types.ModuleType(modname)
    mod.__package__ = package
    mod.__file__ = path
    mod._vf = _prelude
    table = dict(rebind or {})

    def _vf_rebind(g):
        for k, v in table.items():
            if k in g:
                g[k] = v
    mod._vf_rebind = _vf_rebind
    for k, v in (inject or {}).items():
        setattr(mod, k, v)
    sys.modules[modname] = mod
    exec(compile(tree, path, 'exec'), mod.__dict__)
    return mod


# ---------------------------------------------------------------- Mode S environment stubs
import concurrent.futures as _cf


class InlineExecutor:
    """Mode S stand-in for ThreadPoolExecutor: runs the submitted function to completion inside
    submit() (one legal schedule of the worker thread; the others belong to Mode T). Never
    starts an OS thread under the engine."""

    def __init__(self, *a, **k):
        self.submitted = 0

    def submit(self, fn, *a, **k):
        self.submitted += 1
        fut = _cf.Future()
        try:
            r = fn(*a, **k)
        except BaseException as e:  # noqa
            _prelude.reraise_engine(e)
            fut.set_exception(e)
        else:
            fut.set_result(r)
        return fut

    def shutdown(self, wait=True, **k):
        pass

    def __enter__(self):
        return self

    def __exit__(self, *exc):
        return False


_ASYNCIO_S = None


def asyncio_S():
    """aiuti/asyncio.py for Mode S (loaded once per process, from the current source)."""
    global _ASYNCIO_S
    if _ASYNCIO_S is None:
        from vfw.vloop import PyTask
        m = load('aiuti/asyncio.py', 'aiuti_asyncio_modeS',
                 rebind={'ThreadPoolExecutor': InlineExecutor},
                 class_bases={'DaemonTask': '_vf_PyTask'}, inject={'_vf_PyTask': PyTask})
        try:
            m.DaemonTask.__del__ = lambda self: None
        except Exception:  # noqa
            pass
        _ASYNCIO_S = m
    return _ASYNCIO_S
