"""Imports a harness module concretely, runs its conformance suite, prints its cell table."""
import dataclasses
import os
import importlib
import json
import sys
import traceback


def main(modname, prop, tier):
    import vfw.prelude  # noqa
    H = importlib.import_module('harness.' + modname)
    allc = H.cells(prop, 'thorough')
    cells = H.cells(prop, tier)
    names = [c.name for c in allc]
    assert len(names) == len(set(names)), 'duplicate cell names'
    desc = {
        'cells': [dataclasses.asdict(c) for c in cells],
        'all_cells': [dataclasses.asdict(c) for c in allc],
    }
    meta = H.META[prop] if hasattr(H, 'META') else {}
    for k in ('explanation', 'functions', 'bounds', 'outside', 'assumptions'):
        desc[k] = meta.get(k, [] if k in ('functions', 'assumptions') else '')
    if hasattr(H, 'conformance'):
        import signal

        def _alarm(*a):
            # raising here is not enough: catch-alls in the code under analysis may swallow it
            desc['conformance_error'] = 'conformance run exceeded 120 s (busy or endless loop in the code under analysis?)'
            sys.stdout.write('##VFW-DESC ' + json.dumps(desc) + '\n')
            sys.stdout.flush()
            os._exit(0)
        signal.signal(signal.SIGALRM, _alarm)
        signal.alarm(120)
        try:
            H.conformance(prop)
        except BaseException:  # noqa  (incl. StepBound: a busy loop in the code under analysis must not stop the cells from running)
            desc['conformance_error'] = traceback.format_exc()[-3000:]
        finally:
            signal.alarm(0)
    print('##VFW-DESC ' + json.dumps(desc))


if __name__ == '__main__':
    main(*sys.argv[1:4])
