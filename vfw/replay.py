"""Concrete replay of a cell body (no engine): python -m vfw.replay <cellfile> "cell(args)"."""
import importlib.util
import json
import sys
import traceback


def main(path, call):
    import vfw.prelude  # noqa
    spec = importlib.util.spec_from_file_location('vfw_cell_replay', path)
    mod = importlib.util.module_from_spec(spec)
    spec.loader.exec_module(mod)
    ns = {'cell': mod.raw, 'float': float, 'inf': float('inf'), 'nan': float('nan')}
    out = {}
    try:
        devs = eval(call, ns)
        out['devs'] = list(devs)
        out['info'] = getattr(mod.H, 'LAST_INFO', None)
    except Exception:
        out['error'] = traceback.format_exc()[-3000:]
    print('##VFW-REPLAY ' + json.dumps(out, default=repr))


if __name__ == '__main__':
    main(sys.argv[1], sys.argv[2])
