"""Engine prelude: imported first by every generated cell file and every harness module.

* disables CrossHair's contract short-circuiting (DESIGN.md section 1): otherwise patched
  hash()/repr() may return symbolic stand-ins inside the repository's dict lookups;
* disables logging (LogRecord calls time.time(), which CrossHair intercepts);
* imports aiuti at module-import time (versioneer spawns git -> SideEffectDetected if
  that happened inside an analysed function).
"""
import logging
import os
import sys

logging.disable(logging.CRITICAL)
import warnings
warnings.filterwarnings('ignore', category=RuntimeWarning)   # 'coroutine ... was never awaited' noise from abandoned scenario coroutines

UNDER_ENGINE = False
try:  # the replay / audit paths run without crosshair being active, but it is importable
    import crosshair.core as _core

    def _never(*a, **k):
        return None

    _core.consider_shortcircuit = _never
    # keep the builtin frozenset: CrossHair's LinearSet stand-in deep-realises its contents when it
    # is hashed (the repository hashes `(args, frozenset(kwargs.items()))` as a dict key)
    _core._PATCH_REGISTRATIONS.pop(frozenset, None)
    from crosshair.util import CrossHairInternal, IgnoreAttempt, UnexploredPath  # noqa
    import crosshair.util as _cu

    ENGINE_EXC = tuple(
        getattr(_cu, n) for n in ('ControlFlowException',) if hasattr(_cu, n)
    )
except Exception:  # pragma: no cover - crosshair missing: plain python replay still works
    ENGINE_EXC = ()

REPO = os.environ.get('VFW_REPO', '/repo')
if REPO not in sys.path:
    sys.path.insert(0, REPO)

import aiuti  # noqa: E402,F401  (import side effects happen here, not on a symbolic path)


class StepBound(BaseException):
    """Raised by tick(): a loop of the code under analysis iterated FUEL_LIMIT times within one
    task step (no suspension in between) - a busy loop / livelock."""


FUEL = [0]
FUEL_LIMIT = 20000


def tick():
    """Inserted by the loader at the top of every loop body of the loaded repository module."""
    FUEL[0] += 1
    if FUEL[0] > FUEL_LIMIT:
        FUEL[0] = 0
        raise StepBound('loop iterated %d times without suspending' % FUEL_LIMIT)


def refuel():
    FUEL[0] = 0


def is_engine_exc(e: BaseException) -> bool:
    """True for CrossHair's path-steering exceptions (BaseException subclasses) and for the
    harness's own StepBound: both must pass through every catch-all untouched."""
    if isinstance(e, StepBound):
        return True
    if ENGINE_EXC and isinstance(e, ENGINE_EXC):
        return True
    return type(e).__module__.startswith('crosshair')


def reraise_engine(e: BaseException = None) -> None:
    """P0 pass-through: first statement of every catch-all handler in loaded repo code."""
    if e is None:
        e = sys.exc_info()[1]
    if e is not None and is_engine_exc(e):
        raise e


def tracing() -> bool:
    """True while CrossHair is executing the current code symbolically (False in concrete replays).
    Harnesses build their human-readable LAST_INFO only when this is False: repr()/str() of a
    symbolic value would realise it and fork the path on every concrete value."""
    try:
        from crosshair.tracers import is_tracing
        return bool(is_tracing())
    except Exception:  # noqa
        return False


def pick(i, n):
    """Concretise a symbolic index 0 <= i < n by branching (the engine forks once per value), so that
    table look-ups yield ordinary concrete objects instead of symbolic unions."""
    for c in range(n):
        if i == c:
            return c
    raise IndexError(i)
