"""Cell descriptions shared by harness modules and the runner."""
from dataclasses import dataclass, field
from typing import List


@dataclass
class Cell:
    """One CrossHair condition.

    name   -- unique within the property
    sig    -- python parameter list with annotations: the *symbolic* arguments
    pre    -- PEP316 precondition lines: the bound of the cell
    body   -- expression (module namespace: H = harness module) returning the list of
              deviation signatures observed on the path (empty list = property held)
    tier   -- 'quick' (run in both tiers) or 'thorough' (thorough only)
    expect -- 'confirm' : the claim; must be "Confirmed over all paths" to be discharged
              'refute'  : reachability twin; the engine must find a counterexample
    timeout-- --per_condition_timeout (CPU seconds)
    """
    name: str
    sig: str
    pre: List[str]
    body: str
    tier: str = 'quick'
    expect: str = 'confirm'
    timeout: int = 120
    path_timeout: int = 30
    note: str = ''
    family: str = ''
    weight: int = 1   # scheduling hint only: heavier cells are started first

    def argnames(self) -> List[str]:
        out = []
        depth = 0
        cur = ''
        for ch in self.sig + ',':
            if ch in '[(':
                depth += 1
            elif ch in '])':
                depth -= 1
            if ch == ',' and depth == 0:
                if cur.strip():
                    out.append(cur.split(':')[0].strip())
                cur = ''
            else:
                cur += ch
        return out
