"""Run-time side of a cell: path counter, known-finding filter, statistics line at exit."""
import atexit
import json
import os
import sys

VERIF = os.path.dirname(os.path.dirname(os.path.abspath(__file__)))

STATS = {'paths': 0, 'known_seen': {}, 'nontrivial': 0}
_KNOWN = None


def known_signatures(prop):
    """Signatures with status 'known' for a property (read once; never written here)."""
    global _KNOWN
    if _KNOWN is None:
        _KNOWN = {}
        p = os.path.join(VERIF, 'known_findings.jsonl')
        if os.path.exists(p):
            for line in open(p):
                line = line.strip()
                if not line or line.startswith('#'):
                    continue
                e = json.loads(line)
                if e.get('status') == 'known':
                    _KNOWN.setdefault(e['property'], set()).add(e['signature'])
    return _KNOWN.get(prop, set())


def judge(prop, devs, nontrivial=True):
    """Postcondition of a cell: True iff no deviation outside the known-findings list.

    `devs` is the list of deviation signatures the scenario observed on this path.
    Known signatures are remembered (and reported by the runner) but do not fail the
    path, so the solver keeps searching the same cell for other violations.
    """
    STATS['paths'] += 1
    if nontrivial:
        STATS['nontrivial'] += 1
    if not devs:
        return True
    known = known_signatures(prop)
    rest = [d for d in devs if d not in known]
    for d in devs:
        if d in known:
            STATS['known_seen'][d] = STATS['known_seen'].get(d, 0) + 1
    return not rest


def _dump():
    try:
        sys.stderr.write('##VFW-STATS ' + json.dumps(STATS) + '\n')
        sys.stderr.flush()
    except Exception:
        pass


atexit.register(_dump)
