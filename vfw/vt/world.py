"""Mode T core: logical threads stepped cooperatively on one OS thread.

A logical thread is a coroutine driven by send(None); each send runs it to its next token:
  sp(line)               runnable scheduling point
  blocked(pred)          runnable when pred() is true
  timed((pred, deadline)) runnable when pred() or now >= deadline
  sleep(deadline)        runnable when now >= deadline
  yield_                 runnable, but lets another runnable thread go first (sleep(0))
  idle(loop)             an event loop with nothing ready (see simloop)
The scheduler's choices are driven by a priority order and up to k pre-emption positions, which the
harness passes as (possibly symbolic) integers: the engine decides the schedule.
"""
import itertools

from vfw.prelude import is_engine_exc, StepBound


class Tok:
    __slots__ = ('kind', 'arg')

    def __init__(self, kind, arg=None):
        self.kind = kind
        self.arg = arg

    def __await__(self):
        if CUR['off']:      # quiescence: the harness is closing abandoned coroutines, nothing is scheduled any more
            return
        yield self


CUR = {'t': None, 'w': None, 'off': False}
ABANDONED = []          # coroutines of killed threads are kept alive: their finally blocks must never run
ASYNCIFIED = set()      # code objects of functions turned into coroutines by the transform / marked stubs
NATIVE = {}             # function object -> async implementation (e.g. concurrent.futures.Future.result)


def mark(fn):
    ASYNCIFIED.add(fn.__code__)
    return fn


def sp(line=None):
    return Tok('sp', line)


async def call(f, *a, **k):
    """Every call in a transformed body: awaits async-ified callees and blocking stubs."""
    fn = getattr(f, '__func__', f)
    impl = NATIVE.get(fn)
    if impl is not None:
        if hasattr(f, '__self__'):
            return await impl(f.__self__, *a, **k)
        return await impl(*a, **k)
    r = f(*a, **k)
    if type(r) is _CORO and r.cr_code in ASYNCIFIED:
        return await r
    return r


async def _c():
    pass
_x = _c()
_CORO = type(_x)
_x.close()


class EndOfIteration(Exception):
    """raised instead of StopIteration by async-ified __next__ methods (PEP 479)"""


class aiter_:
    """`for x in X:` in transformed code -> `async for x in aiter_(X):` so that a harness iterator whose
    __next__ is an async-ified (marked) method can block the logical thread that drives it."""

    def __init__(self, obj):
        self.it = iter(obj)

    def __aiter__(self):
        return self

    async def __anext__(self):
        nxt = getattr(type(self.it), '__next__', None)
        try:
            if nxt is not None and getattr(nxt, '__code__', None) in ASYNCIFIED:
                return await nxt(self.it)
            return next(self.it)
        except (StopIteration, EndOfIteration):
            raise StopAsyncIteration


class cm:
    """`with X:` in transformed code -> `async with cm(X):` (same enter/exit protocol)."""

    def __init__(self, x):
        self.x = x

    async def __aenter__(self):
        x = self.x
        if hasattr(type(x), '__aenter__') and not hasattr(type(x), '__enter__'):
            return await x.__aenter__()
        return await call(x.__enter__)

    async def __aexit__(self, *e):
        x = self.x
        if hasattr(type(x), '__aexit__') and not hasattr(type(x), '__exit__'):
            return await x.__aexit__(*e)
        return await call(x.__exit__, *e)


class LThread:
    def __init__(self, name, coro, world, pid=0):
        self.name = name
        self.coro = coro
        self.world = world
        self.pid = pid
        self.done = False
        self.killed = False
        self.status = Tok('sp', 'start')
        self.result = None
        self.exc = None
        self.index = len(world.threads)
        self.points = 0
        self.last_run = 0

    def enabled(self):
        s = self.status
        k = s.kind
        if k in ('sp', 'yield'):
            return True
        if k == 'blocked':
            return s.arg()
        if k == 'sleep':
            return s.arg <= self.world.now
        if k == 'timed':
            return s.arg[0]() or s.arg[1] <= self.world.now
        if k == 'idle':
            return s.arg.vt_ready(self.world.now)
        raise AssertionError(k)

    def wake(self):
        s = self.status
        if s.kind == 'sleep':
            return s.arg
        if s.kind == 'timed':
            return s.arg[1]
        if s.kind == 'idle':
            return s.arg.vt_next_deadline()
        return None

    def step(self):
        CUR['t'] = self
        try:
            self.status = self.coro.send(None)
            self.points += 1
        except StopIteration as e:
            self.done = True
            self.result = e.value
        except (Exception, StepBound) as e:  # noqa  (StepBound: a busy loop of this thread; it is an outcome, not an engine signal)
            self.done = True
            self.exc = e
        finally:
            CUR['t'] = None


class World:
    """prio: permutation of thread indices (first = highest priority; decides forced switches and ties)
    preempts: list of (position, target): at the position-th point where the running thread could
    continue and another thread is runnable, switch to the target-th other runnable thread."""

    def __init__(self, prio=None, preempts=(), max_steps=4000, trace=False):
        self.now = 0
        self.threads = []
        self.prio = prio
        self.preempts = list(preempts)
        self.cur = None
        self.steps = 0
        self.opportunities = 0
        self.max_steps = max_steps
        self.trace = [] if trace else None
        self.kill_at = {}       # pid -> number of scheduling points of that pid's threads after which it dies
        self.on_kill = None
        CUR['w'] = self
        CUR['off'] = False

    def spawn(self, name, coro, pid=0):
        t = LThread(name, coro, self, pid)
        self.threads.append(t)
        return t

    def _rank(self, t):
        if self.prio is None:
            return t.index
        try:
            return self.prio.index(t.index)
        except ValueError:
            return len(self.prio) + t.index

    def choose(self, en):
        cur = self.cur
        if cur is not None and cur in en and cur.status.kind != 'yield':
            if len(en) > 1:
                self.opportunities += 1
                for (p, q) in self.preempts:
                    if self.opportunities == p:
                        others = sorted((t for t in en if t is not cur), key=self._rank)
                        return others[q] if 0 <= q < len(others) else others[0]
            return cur
        if cur is not None and cur in en and cur.status.kind == 'yield':
            # sleep(0): let the thread that has waited longest go first (a spinning pair must not starve a third)
            others = sorted((t for t in en if t is not cur), key=lambda t: (t.last_run, self._rank(t)))
        else:
            others = sorted((t for t in en if t is not cur), key=self._rank)
        return others[0] if others else en[0]

    def kill(self, pid):
        for t in self.threads:
            if t.pid == pid and not t.done:
                t.done = True
                t.killed = True
                ABANDONED.append(t.coro)
        if self.on_kill:
            self.on_kill(pid)

    def run(self):
        while True:
            alive = [t for t in self.threads if not t.done]
            if not alive:
                return 'done'
            en = [t for t in alive if t.enabled()]
            if not en:
                ws = [w for w in (t.wake() for t in alive) if w is not None]
                if not ws:
                    return 'deadlock'
                m = ws[0]
                for x in ws[1:]:
                    if x < m:
                        m = x
                if m <= self.now:     # defensive: a deadline in the past must have enabled its thread
                    return 'deadlock'
                self.now = m
                continue
            t = self.choose(en)
            self.cur = t
            self.steps += 1
            if self.steps > self.max_steps:
                return 'stepbound'
            if self.trace is not None:
                self.trace.append((t.name, t.status.kind, t.status.arg if t.status.kind == 'sp' else None, self.now))
            t.last_run = self.steps
            t.step()
            if self.kill_at:
                k = self.kill_at.get(t.pid)
                if k is not None and not t.done:
                    n = sum(x.points for x in self.threads if x.pid == t.pid)
                    if n >= k:
                        self.kill(t.pid)

    def abandon_all(self):
        """End of a path: whatever is still alive is parked for good (no finally blocks later)."""
        for t in self.threads:
            if not t.done:
                ABANDONED.append(t.coro)
                t.done = True
        CUR['off'] = True


def permutation(n, idx):
    """idx-th permutation of range(n) (idx concrete)."""
    return list(list(itertools.permutations(range(n)))[idx])


def run_sync(coro, world, me=None):
    """Drive one async-ified call to completion on behalf of logical thread `me` when no other thread
    can run (sequential scenarios). Returns ('ok', value) | ('exc', e) | ('would-block', None)."""
    CUR['t'] = me
    try:
        while True:
            try:
                tok = coro.send(None)
            except StopIteration as e:
                return ('ok', e.value)
            except (Exception, StepBound) as e:  # noqa
                return ('exc', e)
            k = tok.kind
            if k in ('sp', 'yield'):
                continue
            if k == 'sleep':
                if tok.arg > world.now:
                    world.now = tok.arg
                continue
            if k == 'timed':
                if not tok.arg[0]() and tok.arg[1] > world.now:
                    world.now = tok.arg[1]
                continue
            if k == 'blocked':
                if tok.arg():
                    continue
                ABANDONED.append(coro)
                return ('would-block', None)
            raise AssertionError(k)
    finally:
        CUR['t'] = None
