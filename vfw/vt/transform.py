"""Mode T source passes (DESIGN 3.2): P2 scheduling points, P3 awaitable form.

Applied to the AST of /repo's current source by vfw.loader.load(extra_passes=[Asyncify(...)]).
"""
import ast
import sys

PURE = {'isinstance', 'len', 'max', 'min', 'id', 'int', 'str', 'bool', 'callable', 'getattr', 'hasattr', 'type',
        'super', 'TypeVar', '__import__', 'cast', 'frozenset', 'tuple', 'list', 'dict', 'set', 'repr', 'partial', 'iter', 'map'}
NOCALL_BASES = {'_vt', '_vf', '_logger', 'logger', 'logging'}


class Asyncify(ast.NodeTransformer):
    """want(qualname, node) -> bool selects the functions to transform (sync def -> async def, calls ->
    await _vt.call(...), with -> async with _vt.cm(...), scheduling point before every statement).
    Already-async functions that are selected only get scheduling points and call dispatch."""

    def __init__(self, want, points=True, local_rule=False, want_gen=lambda qual: False):
        self.want = want
        self.want_gen = want_gen       # sync generator functions to turn into async generators (consumer drives them with async for)
        self.points = points
        self.local_rule = local_rule   # P2 locality rule: no point before statements that only touch locals
        self.infn = 0
        self.stack = []
        self.transformed = []

    def visit_Lambda(self, n):
        return n

    def visit_ListComp(self, n):
        return n
    visit_SetComp = visit_DictComp = visit_GeneratorExp = visit_ListComp

    def visit_ClassDef(self, n):
        old = self.infn
        self.infn = 0
        self.stack.append(n.name)
        self.generic_visit(n)
        self.stack.pop()
        self.infn = old
        return n

    def _fn(self, n, was_async):
        qual = '.'.join(self.stack + [n.name])
        skip = any(isinstance(d, ast.Name) and d.id in ('property', 'overload') for d in n.decorator_list) or \
            any(isinstance(d, ast.Attribute) and d.attr == 'abstractmethod' for d in n.decorator_list)
        selected = self.infn > 0 or (not skip and self.want(qual, n))
        if not selected:
            # still descend: nested classes / functions may be selected
            self.stack.append(n.name)
            old = self.infn
            self.infn = 0
            self.generic_visit(n)
            self.infn = old
            self.stack.pop()
            return n
        is_gen = (not was_async) and any(isinstance(x, (ast.Yield, ast.YieldFrom)) for x in _own_nodes(n))
        is_ctx = any(isinstance(d, ast.Attribute) and d.attr == 'contextmanager' for d in n.decorator_list)
        if is_gen and not is_ctx and not self.want_gen(qual):
            return n   # plain sync generators consumed by library code stay atomic
        self.transformed.append(qual)
        self.stack.append(n.name)
        self.infn += 1
        n.body = self._block(n.body)
        self.infn -= 1
        self.stack.pop()
        decos = []
        for d in n.decorator_list:
            if isinstance(d, ast.Attribute) and d.attr == 'contextmanager':
                d = ast.Attribute(d.value, 'asynccontextmanager', ast.Load())
            decos.append(d)
        if not was_async and not (is_gen and not is_ctx):
            decos.append(ast.Attribute(ast.Name('_vt', ast.Load()), 'mark', ast.Load()))
        new = ast.AsyncFunctionDef(n.name, n.args, n.body, decos, n.returns, getattr(n, 'type_comment', None))
        if sys.version_info >= (3, 12):
            new.type_params = getattr(n, 'type_params', [])
        return ast.copy_location(new, n)

    def visit_FunctionDef(self, n):
        return self._fn(n, False)

    def visit_AsyncFunctionDef(self, n):
        return self._fn(n, True)

    def _sp(self, s):
        return ast.copy_location(ast.Expr(ast.Await(ast.Call(
            ast.Attribute(ast.Name('_vt', ast.Load()), 'sp', ast.Load()), [ast.Constant(s.lineno)], []))), s)

    def _block(self, stmts):
        out = []
        for s in stmts:
            if isinstance(s, ast.Expr) and isinstance(s.value, ast.Constant) and isinstance(s.value.value, str):
                out.append(s)
                continue
            if self.points and not isinstance(s, (ast.FunctionDef, ast.AsyncFunctionDef, ast.ClassDef, ast.Pass, ast.Global, ast.Nonlocal)) \
                    and not (self.local_rule and _is_local(s)):
                out.append(self._sp(s))
            out.append(self.visit(s))
        return out

    def generic_visit(self, node):
        if self.infn and isinstance(node, ast.stmt):
            for f in ('body', 'orelse', 'finalbody'):
                v = getattr(node, f, None)
                if isinstance(v, list) and v and isinstance(v[0], ast.stmt):
                    setattr(node, f, self._block(v))
            if isinstance(node, ast.Try):
                for h in node.handlers:
                    h.body = self._block(h.body)
            for field, value in ast.iter_fields(node):
                if field in ('body', 'orelse', 'finalbody', 'handlers'):
                    continue
                if isinstance(value, list):
                    setattr(node, field, [self.visit(v) if isinstance(v, ast.AST) else v for v in value])
                elif isinstance(value, ast.AST):
                    setattr(node, field, self.visit(value))
            return node
        return super().generic_visit(node)

    def visit_For(self, n):
        if not self.infn:
            return self.generic_visit(n)
        self.generic_visit(n)
        it = ast.Call(ast.Attribute(ast.Name('_vt', ast.Load()), 'aiter_', ast.Load()), [n.iter], [])
        return ast.copy_location(ast.AsyncFor(n.target, it, n.body, n.orelse, getattr(n, 'type_comment', None)), n)

    def visit_With(self, n):
        if not self.infn:
            return self.generic_visit(n)
        self.generic_visit(n)
        items = [ast.withitem(ast.Call(ast.Attribute(ast.Name('_vt', ast.Load()), 'cm', ast.Load()), [i.context_expr], []),
                              i.optional_vars) for i in n.items]
        return ast.copy_location(ast.AsyncWith(items, n.body), n)

    def visit_Await(self, n):
        # `await f(x)`: f(x) is a genuine coroutine call - leave the call alone, visit its arguments
        v = n.value
        if self.infn and isinstance(v, ast.Call):
            v.args = [self.visit(a) for a in v.args]
            v.keywords = [ast.keyword(k.arg, self.visit(k.value)) for k in v.keywords]
            v.func = self.visit(v.func)
            return n
        self.generic_visit(n)
        return n

    def visit_Call(self, n):
        self.generic_visit(n)
        if not self.infn:
            return n
        if isinstance(n.func, ast.Name) and n.func.id in PURE:
            return n
        base = n.func
        while isinstance(base, ast.Attribute):
            base = base.value
        if isinstance(base, ast.Name) and base.id in NOCALL_BASES:
            return n
        new = ast.Call(ast.Attribute(ast.Name('_vt', ast.Load()), 'call', ast.Load()), [n.func] + n.args, n.keywords)
        return ast.copy_location(ast.Await(ast.copy_location(new, n)), n)


def _own_nodes(fn):
    """nodes of a function body, not descending into nested function/class definitions"""
    todo = list(fn.body)
    while todo:
        x = todo.pop()
        yield x
        for c in ast.iter_child_nodes(x):
            if isinstance(c, (ast.FunctionDef, ast.AsyncFunctionDef, ast.ClassDef, ast.Lambda)):
                continue
            todo.append(c)


def _is_local(s):
    """statements that read/write function-local names only: they commute with every other thread"""
    if isinstance(s, (ast.Continue, ast.Break)):
        return True
    if isinstance(s, ast.Raise):
        return s.exc is None or isinstance(s.exc, ast.Name)
    if isinstance(s, ast.Return):
        return s.value is None or isinstance(s.value, (ast.Name, ast.Constant))
    if isinstance(s, ast.Assign):
        return all(isinstance(t, ast.Name) for t in s.targets) and isinstance(s.value, (ast.Constant, ast.Name))
    if isinstance(s, ast.Try):
        return True    # the points are in front of the statements inside
    if isinstance(s, ast.While):
        return isinstance(s.test, ast.Constant)
    return False
