"""Mode T environment stubs with stated contracts (DESIGN 3.4).

VLock / VRLock     threading.Lock / RLock: acquire(blocking=True, timeout=-1), release(), owner checks
Kernel + KOS/KFcntl flock(2) model: inodes, path table, per-process fd tables, open file descriptions;
                   a lock belongs to the open file description, conflicts across descriptions even in
                   one process, is dropped on LOCK_UN or when the description's last fd is closed, and
                   all descriptors of a process are closed when it is killed
KTime              time.time() = world clock; time.sleep(d) sleeps d + overshoot
Each syscall can be told to raise OSError at a given call index (fault injection).
"""
from vfw.vt.world import Tok, CUR, mark


class VLock:
    def __init__(self, world=None, reentrant=False):
        self._w = world
        self.re = reentrant
        self.owner = None
        self.n = 0
        self.waited = 0   # virtual time spent inside timed acquires (for the C12 timing clause)

    @property
    def w(self):
        return self._w if self._w is not None else CUR['w']

    def _can(self, me):
        return self.owner is None or (self.re and self.owner is me)

    def locked(self):
        return self.owner is not None

    @mark
    async def acquire(self, blocking=True, timeout=-1):
        me = CUR['t']
        if not blocking and timeout != -1:
            raise ValueError("can't specify a timeout for a non-blocking call")
        if not self._can(me) and CUR['off']:
            return True     # teardown at quiescence: never wait
        if not self._can(me):
            if not blocking:
                return False
            if timeout >= 0:
                t0 = self.w.now
                dl = self.w.now + timeout
                while not self._can(me):
                    if self.w.now >= dl:
                        self.waited += self.w.now - t0
                        return False
                    await Tok('timed', (lambda: self._can(me), dl))
                self.waited += self.w.now - t0
            else:
                while not self._can(me):
                    await Tok('blocked', lambda: self._can(me))
        self.owner = me
        self.n += 1
        return True

    def release(self):
        if CUR['off']:
            return
        if self.owner is None:
            raise RuntimeError('release unlocked lock')
        if self.re and self.owner is not CUR['t']:
            raise RuntimeError('cannot release un-acquired lock')
        self.n -= 1
        if self.n == 0:
            self.owner = None

    @mark
    async def __enter__(self):
        await self.acquire()
        return self

    def __exit__(self, *a):
        self.release()


class VEvent:
    """threading.Event for logical threads"""

    def __init__(self):
        self.flag = False

    def is_set(self):
        return self.flag
    isSet = is_set

    def set(self):
        self.flag = True

    def clear(self):
        self.flag = False

    @mark
    async def wait(self, timeout=None):
        if CUR['off']:
            return self.flag
        w = CUR['w']
        if timeout is None:
            while not self.flag:
                await Tok('blocked', lambda: self.flag)
        else:
            dl = w.now + timeout
            while not self.flag and w.now < dl:
                await Tok('timed', (lambda: self.flag, dl))
        return self.flag


class VSemaphore:
    """threading.Semaphore / BoundedSemaphore for logical threads"""

    def __init__(self, value=1):
        self.value = value

    @mark
    async def acquire(self, blocking=True, timeout=None):
        if CUR['off']:
            return True
        w = CUR['w']
        if self.value <= 0:
            if not blocking:
                return False
            if timeout is not None:
                dl = w.now + timeout
                while self.value <= 0:
                    if w.now >= dl:
                        return False
                    await Tok('timed', (lambda: self.value > 0, dl))
            else:
                while self.value <= 0:
                    await Tok('blocked', lambda: self.value > 0)
        self.value -= 1
        return True

    def release(self, n=1):
        self.value += n

    @mark
    async def __enter__(self):
        await self.acquire()
        return self

    def __exit__(self, *a):
        self.release()


def VRLock(*a, **k):
    return VLock(None, True)


class ThreadingModule:
    """`import threading` inside a module loaded for Mode T: only the modelled primitives exist"""
    Lock = VLock
    RLock = staticmethod(VRLock)
    Event = VEvent
    Semaphore = BoundedSemaphore = VSemaphore

    @staticmethod
    def get_ident():
        t = CUR['t']
        return 1000 + (t.index if t is not None else 0)

    @staticmethod
    def current_thread():
        return CUR['t']

    def __getattr__(self, name):
        raise ModelGap('threading.%s is not modelled' % name)


MODE_T_REBIND = {'Lock': VLock, 'RLock': VRLock, 'Event': VEvent, 'Semaphore': VSemaphore, 'BoundedSemaphore': VSemaphore,
                 'threading': ThreadingModule()}


class KThreading:
    """stands in for the `threading` module inside the loaded repository module"""

    Event = VEvent
    Semaphore = BoundedSemaphore = VSemaphore

    def __init__(self, world):
        self.w = world
        self.made = []

    def Lock(self):
        l = VLock(self.w, False)
        self.made.append(l)
        return l

    def RLock(self):
        l = VLock(self.w, True)
        self.made.append(l)
        return l

    def get_ident(self):
        t = CUR['t']
        return 1000 + (t.index if t is not None else 0)

    def current_thread(self):
        return CUR['t']

    def __getattr__(self, name):
        raise ModelGap('threading.%s is not modelled' % name)


class ModelGap(BaseException):
    """the code under analysis used an OS facility the kernel model does not cover: a harness limitation,
    never a verdict about the property (propagates out of the scenario -> harness error, exit 3)"""


class OFD:
    """open file description"""
    __slots__ = ('inode', 'refs', 'pid', 'pos', 'flags')

    def __init__(self, inode, pid, flags=0):
        self.inode = inode
        self.refs = 1
        self.pid = pid
        self.pos = 0
        self.flags = flags


class Kernel:
    def __init__(self, world):
        self.w = world
        self.paths = {}        # path -> inode number
        self.next_inode = 1
        self.next_fd = 3
        self.fds = {}          # fd -> OFD   (one table; OFD.pid says whose it is)
        self.lock_holder = {}  # inode -> OFD holding LOCK_EX
        self.calls = {'open': 0, 'flock': 0, 'unlock': 0, 'close': 0, 'unlink': 0}
        self.faults = {}       # (syscall, call index) -> errno
        self.log = []
        self.data = {}         # inode -> bytes
        self.mode = {}         # inode -> permission bits
        self.dead = set()      # pids of processes that were killed / exited

    def _pid(self):
        t = CUR['t']
        return t.pid if t is not None else 0

    def _fault(self, name):
        i = self.calls[name]
        self.calls[name] = i + 1
        if (name, i) in self.faults:
            raise OSError(self.faults[(name, i)], 'injected fault in %s #%d' % (name, i))

    def open_fds(self, pid=None):
        return [fd for fd, o in self.fds.items() if pid is None or o.pid == pid]

    def kill(self, pid):
        self.dead.add(pid)
        for fd in [fd for fd, o in self.fds.items() if o.pid == pid]:
            self._close(fd)

    def _close(self, fd):
        o = self.fds.pop(fd)
        o.refs -= 1
        if o.refs == 0 and self.lock_holder.get(o.inode) is o:
            del self.lock_holder[o.inode]


class _KPath:
    """os.path: pure helpers come from the real module, existence checks ask the model"""

    def __init__(self, k):
        self.k = k

    def exists(self, p):
        return str(p) in self.k.paths
    isfile = lexists = exists

    def isdir(self, p):
        return False

    def getsize(self, p):
        p = str(p)
        if p not in self.k.paths:
            raise FileNotFoundError(2, 'ENOENT', p)
        return len(self.k.data.get(self.k.paths[p], b''))

    def __getattr__(self, name):
        import os.path as _p
        if name in ('join', 'dirname', 'basename', 'abspath', 'normpath', 'splitext', 'split', 'expanduser', 'realpath', 'isabs', 'sep'):
            return getattr(_p, name)
        raise ModelGap('os.path.%s is not modelled' % name)


class _Stat:
    def __init__(self, ino, size, mode):
        self.st_ino = ino
        self.st_size = size
        self.st_mode = 0o100000 | mode
        self.st_nlink = 1
        self.st_mtime = self.st_ctime = self.st_atime = 0
        self.st_dev = 1
        self.st_uid = self.st_gid = 0


class KOS:
    O_RDONLY = 0
    O_WRONLY = 1
    O_RDWR = 2
    O_CREAT = 64
    O_EXCL = 128
    O_NOCTTY = 256
    O_TRUNC = 512
    O_APPEND = 1024
    O_NONBLOCK = 2048
    O_CLOEXEC = 524288
    SEEK_SET, SEEK_CUR, SEEK_END = 0, 1, 2
    PathLike = str
    sep = '/'
    name = 'posix'
    linesep = '\n'
    error = OSError

    def __init__(self, k):
        self.k = k
        self.path = _KPath(k)

    def __getattr__(self, name):
        raise ModelGap('os.%s is not modelled' % name)

    def fspath(self, p):
        return str(p)

    def fsencode(self, p):
        return str(p).encode()

    def getpid(self):
        return 100 + self.k._pid()

    def getppid(self):
        return 99

    def kill(self, pid, sig):
        mp = pid - 100
        if mp in self.k.dead or mp < 0:
            raise ProcessLookupError(3, 'ESRCH')
        if sig != 0:
            raise ModelGap('os.kill with a real signal is not modelled')

    def open(self, path, flags, mode=0o777, *a, **kw):
        k = self.k
        k._fault('open')
        path = str(path)
        if path not in k.paths:
            if not flags & self.O_CREAT:
                raise FileNotFoundError(2, 'ENOENT', path)
            k.paths[path] = k.next_inode
            k.data[k.next_inode] = b''
            k.mode[k.next_inode] = mode & 0o755
            k.next_inode += 1
        elif flags & self.O_EXCL and flags & self.O_CREAT:
            raise FileExistsError(17, 'EEXIST', path)
        ino = k.paths[path]
        if flags & self.O_TRUNC:
            k.data[ino] = b''
        fd = k.next_fd
        k.next_fd += 1
        k.fds[fd] = OFD(ino, k._pid(), flags)
        return fd

    def _ofd(self, fd):
        if fd not in self.k.fds:
            raise OSError(9, 'EBADF')
        return self.k.fds[fd]

    def close(self, fd):
        k = self.k
        k._fault('close')
        if fd not in k.fds:
            raise OSError(9, 'EBADF')
        k._close(fd)

    def read(self, fd, n):
        o = self._ofd(fd)
        d = self.k.data.get(o.inode, b'')[o.pos:o.pos + n]
        o.pos += len(d)
        return d

    def write(self, fd, b):
        o = self._ofd(fd)
        cur = self.k.data.get(o.inode, b'')
        if o.flags & self.O_APPEND:
            o.pos = len(cur)
        cur = cur[:o.pos].ljust(o.pos, b'\0') + bytes(b) + cur[o.pos + len(b):]
        self.k.data[o.inode] = cur
        o.pos += len(b)
        return len(b)

    def lseek(self, fd, pos, how=0):
        o = self._ofd(fd)
        size = len(self.k.data.get(o.inode, b''))
        o.pos = pos if how == 0 else (o.pos + pos if how == 1 else size + pos)
        return o.pos

    def ftruncate(self, fd, n):
        o = self._ofd(fd)
        self.k.data[o.inode] = self.k.data.get(o.inode, b'')[:n].ljust(n, b'\0')

    def truncate(self, path, n):
        path = str(path)
        if path not in self.k.paths:
            raise FileNotFoundError(2, 'ENOENT', path)
        ino = self.k.paths[path]
        self.k.data[ino] = self.k.data.get(ino, b'')[:n].ljust(n, b'\0')

    def fsync(self, fd):
        self._ofd(fd)
    fdatasync = fsync

    def fstat(self, fd):
        o = self._ofd(fd)
        return _Stat(o.inode, len(self.k.data.get(o.inode, b'')), self.k.mode.get(o.inode, 0o644))

    def stat(self, path, *a, **kw):
        path = str(path)
        if path not in self.k.paths:
            raise FileNotFoundError(2, 'ENOENT', path)
        ino = self.k.paths[path]
        return _Stat(ino, len(self.k.data.get(ino, b'')), self.k.mode.get(ino, 0o644))
    lstat = stat

    def chmod(self, path, mode, *a, **kw):
        path = str(path)
        if path not in self.k.paths:
            raise FileNotFoundError(2, 'ENOENT', path)
        self.k.mode[self.k.paths[path]] = mode

    def fchmod(self, fd, mode):
        self.k.mode[self._ofd(fd).inode] = mode

    def umask(self, m):
        return 0o022

    def utime(self, path, *a, **kw):
        if str(path) not in self.k.paths:
            raise FileNotFoundError(2, 'ENOENT', str(path))

    def link(self, src, dst, *a, **kw):
        src, dst = str(src), str(dst)
        if src not in self.k.paths:
            raise FileNotFoundError(2, 'ENOENT', src)
        if dst in self.k.paths:
            raise FileExistsError(17, 'EEXIST', dst)
        self.k.paths[dst] = self.k.paths[src]

    def rename(self, src, dst, *a, **kw):
        src, dst = str(src), str(dst)
        if src not in self.k.paths:
            raise FileNotFoundError(2, 'ENOENT', src)
        self.k.paths[dst] = self.k.paths.pop(src)
    replace = rename

    def unlink(self, path, *a, **kw):
        k = self.k
        k._fault('unlink')
        path = str(path)
        if path not in k.paths:
            raise FileNotFoundError(2, 'ENOENT', path)
        del k.paths[path]
    remove = unlink

    def makedirs(self, *a, **kw):
        pass
    mkdir = makedirs

    def listdir(self, p='.'):
        return [x.rsplit('/', 1)[-1] for x in self.k.paths]

    def dup(self, fd):
        o = self._ofd(fd)
        o.refs += 1
        nfd = self.k.next_fd
        self.k.next_fd += 1
        self.k.fds[nfd] = o
        return nfd

    def set_inheritable(self, fd, v):
        pass


def model_open(path, *a, **kw):
    """builtin open() inside the loaded module: only the kernel model's files exist (nothing under /proc etc.)"""
    raise FileNotFoundError(2, 'ENOENT (not in the kernel model)', str(path))


class KFcntl:
    LOCK_SH = 1
    LOCK_EX = 2
    LOCK_NB = 4
    LOCK_UN = 8

    def __init__(self, k):
        self.k = k

    @mark
    async def flock(self, fd, op):
        k = self.k
        if op & self.LOCK_UN:
            k._fault('unlock')
            if fd not in k.fds:
                raise OSError(9, 'EBADF')
            o = k.fds[fd]
            if k.lock_holder.get(o.inode) is o:
                del k.lock_holder[o.inode]
            return
        k._fault('flock')
        if fd not in k.fds:
            raise OSError(9, 'EBADF')
        o = k.fds[fd]
        if op & self.LOCK_SH and not op & self.LOCK_EX:
            return   # shared locks never conflict with each other (exclusive holders are not modelled against them)

        def free():
            h = k.lock_holder.get(o.inode)
            return h is None or h is o
        while not free():
            if op & self.LOCK_NB:
                raise BlockingIOError(11, 'EAGAIN')
            await Tok('blocked', free)
        k.lock_holder[o.inode] = o

    def __getattr__(self, name):
        raise ModelGap('fcntl.%s is not modelled' % name)


class KTime:
    def __init__(self, world, overshoot=0):
        self.w = world
        self.overshoot = overshoot
        self.slept = 0
        self.sleeps = 0

    def time(self):
        return self.w.now

    def monotonic(self):
        return self.w.now

    def perf_counter(self):
        return self.w.now

    @mark
    async def sleep(self, d):
        self.sleeps += 1
        if isinstance(d, float):   # contract: sleeps at least d; sub-tick floats (default poll 0.05) round up to one tick
            d = int(d) + (1 if d > int(d) else 0)
        dl = self.w.now + d + self.overshoot
        self.slept += d + self.overshoot
        if dl <= self.w.now:
            await Tok('yield')
        else:
            await Tok('sleep', dl)
