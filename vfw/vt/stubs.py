"""Mode T environment stubs with stated contracts (DESIGN 3.4).

VLock / VRLock     threading.Lock / RLock: acquire(blocking=True, timeout=-1), release(), owner checks
Kernel + KOS/KFcntl flock(2) model: inodes, path table, per-process fd tables, open file descriptions;
                   a lock belongs to the open file description, conflicts across descriptions even in
                   one process, is dropped on LOCK_UN or when the description's last fd is closed, and
                   all descriptors of a process are closed when it is killed
KTime              time.time() = world clock; time.sleep(d) sleeps d + overshoot
Each syscall can be told to raise OSError at a given call index (fault injection).
"""
from vfw.vt.world import Tok, CUR, mark


class VLock:
    def __init__(self, world=None, reentrant=False):
        self._w = world
        self.re = reentrant
        self.owner = None
        self.n = 0
        self.waited = 0   # virtual time spent inside timed acquires (for the C12 timing clause)

    @property
    def w(self):
        return self._w if self._w is not None else CUR['w']

    def _can(self, me):
        return self.owner is None or (self.re and self.owner is me)

    def locked(self):
        return self.owner is not None

    @mark
    async def acquire(self, blocking=True, timeout=-1):
        me = CUR['t']
        if not blocking and timeout != -1:
            raise ValueError("can't specify a timeout for a non-blocking call")
        if not self._can(me) and CUR['off']:
            return True     # teardown at quiescence: never wait
        if not self._can(me):
            if not blocking:
                return False
            if timeout >= 0:
                t0 = self.w.now
                dl = self.w.now + timeout
                while not self._can(me):
                    if self.w.now >= dl:
                        self.waited += self.w.now - t0
                        return False
                    await Tok('timed', (lambda: self._can(me), dl))
                self.waited += self.w.now - t0
            else:
                while not self._can(me):
                    await Tok('blocked', lambda: self._can(me))
        self.owner = me
        self.n += 1
        return True

    def release(self):
        if CUR['off']:
            return
        if self.owner is None:
            raise RuntimeError('release unlocked lock')
        if self.re and self.owner is not CUR['t']:
            raise RuntimeError('cannot release un-acquired lock')
        self.n -= 1
        if self.n == 0:
            self.owner = None

    @mark
    async def __enter__(self):
        await self.acquire()
        return self

    def __exit__(self, *a):
        self.release()


class KThreading:
    """stands in for the `threading` module inside the loaded repository module"""

    def __init__(self, world):
        self.w = world
        self.made = []

    def Lock(self):
        l = VLock(self.w, False)
        self.made.append(l)
        return l

    def RLock(self):
        l = VLock(self.w, True)
        self.made.append(l)
        return l

    def get_ident(self):
        t = CUR['t']
        return 1000 + (t.index if t is not None else 0)


class OFD:
    """open file description"""
    __slots__ = ('inode', 'refs', 'pid')

    def __init__(self, inode, pid):
        self.inode = inode
        self.refs = 1
        self.pid = pid


class Kernel:
    def __init__(self, world):
        self.w = world
        self.paths = {}        # path -> inode number
        self.next_inode = 1
        self.next_fd = 3
        self.fds = {}          # fd -> OFD   (one table; OFD.pid says whose it is)
        self.lock_holder = {}  # inode -> OFD holding LOCK_EX
        self.calls = {'open': 0, 'flock': 0, 'unlock': 0, 'close': 0, 'unlink': 0}
        self.faults = {}       # (syscall, call index) -> errno
        self.log = []

    def _pid(self):
        t = CUR['t']
        return t.pid if t is not None else 0

    def _fault(self, name):
        i = self.calls[name]
        self.calls[name] = i + 1
        if (name, i) in self.faults:
            raise OSError(self.faults[(name, i)], 'injected fault in %s #%d' % (name, i))

    def open_fds(self, pid=None):
        return [fd for fd, o in self.fds.items() if pid is None or o.pid == pid]

    def kill(self, pid):
        for fd in [fd for fd, o in self.fds.items() if o.pid == pid]:
            self._close(fd)

    def _close(self, fd):
        o = self.fds.pop(fd)
        o.refs -= 1
        if o.refs == 0 and self.lock_holder.get(o.inode) is o:
            del self.lock_holder[o.inode]


class KOS:
    O_RDWR = 2
    O_CREAT = 64
    O_TRUNC = 512
    O_EXCL = 128
    PathLike = str

    def __init__(self, k):
        self.k = k

    def fspath(self, p):
        return str(p)

    def open(self, path, flags, mode=0o777):
        k = self.k
        k._fault('open')
        path = str(path)
        if path not in k.paths:
            if not flags & self.O_CREAT:
                raise FileNotFoundError(2, 'ENOENT', path)
            k.paths[path] = k.next_inode
            k.next_inode += 1
        elif flags & self.O_EXCL and flags & self.O_CREAT:
            raise FileExistsError(17, 'EEXIST', path)
        fd = k.next_fd
        k.next_fd += 1
        k.fds[fd] = OFD(k.paths[path], k._pid())
        return fd

    def close(self, fd):
        k = self.k
        k._fault('close')
        if fd not in k.fds:
            raise OSError(9, 'EBADF')
        k._close(fd)

    def unlink(self, path):
        k = self.k
        k._fault('unlink')
        path = str(path)
        if path not in k.paths:
            raise FileNotFoundError(2, 'ENOENT', path)
        del k.paths[path]
    remove = unlink

    def getpid(self):
        return 100 + self.k._pid()

    class path:  # noqa: N801  (os.path subset)
        @staticmethod
        def exists(p):
            return False


class KFcntl:
    LOCK_SH = 1
    LOCK_EX = 2
    LOCK_NB = 4
    LOCK_UN = 8

    def __init__(self, k):
        self.k = k

    @mark
    async def flock(self, fd, op):
        k = self.k
        if op & self.LOCK_UN:
            k._fault('unlock')
            if fd not in k.fds:
                raise OSError(9, 'EBADF')
            o = k.fds[fd]
            if k.lock_holder.get(o.inode) is o:
                del k.lock_holder[o.inode]
            return
        k._fault('flock')
        if fd not in k.fds:
            raise OSError(9, 'EBADF')
        o = k.fds[fd]
        if op & self.LOCK_SH and not op & self.LOCK_EX:
            return   # shared locks never conflict with each other (exclusive holders are not modelled against them)

        def free():
            h = k.lock_holder.get(o.inode)
            return h is None or h is o
        while not free():
            if op & self.LOCK_NB:
                raise BlockingIOError(11, 'EAGAIN')
            await Tok('blocked', free)
        k.lock_holder[o.inode] = o

    def lockf(self, *a):
        raise NotImplementedError('lockf is not modelled')


class KTime:
    def __init__(self, world, overshoot=0):
        self.w = world
        self.overshoot = overshoot
        self.slept = 0
        self.sleeps = 0

    def time(self):
        return self.w.now

    def monotonic(self):
        return self.w.now

    def perf_counter(self):
        return self.w.now

    @mark
    async def sleep(self, d):
        self.sleeps += 1
        if isinstance(d, float):   # contract: sleeps at least d; sub-tick floats (default poll 0.05) round up to one tick
            d = int(d) + (1 if d > int(d) else 0)
        dl = self.w.now + d + self.overshoot
        self.slept += d + self.overshoot
        if dl <= self.w.now:
            await Tok('yield')
        else:
            await Tok('sleep', dl)
