"""Mode T: real asyncio event loops as logical threads.

SimLoop is a stock BaseEventLoop whose run_forever/run_until_complete are coroutines of the logical
thread that runs the loop (structure and order copied from CPython 3.12 BaseEventLoop._run_once):
drop cancelled timers, wait while nothing is ready (token 'idle'), move due timers, run exactly the
handles that were ready at the start of the iteration.  SimTask is the pure-python Task whose step,
when the coroutine yields a scheduling token, suspends the *whole loop thread* mid-step (no other
handle of that loop runs until it is resumed) and is not a cancellation point.
"""
import asyncio
import concurrent.futures
import heapq
import threading
from asyncio import events, exceptions, futures, tasks
from asyncio.tasks import _PyTask, _enter_task, _leave_task

from vfw.prelude import is_engine_exc
from vfw.vt.world import Tok, CUR, NATIVE, mark, call


class SimTask(_PyTask):
    _serial = [0]

    def __init__(self, coro, *, loop=None, **kw):
        SimTask._serial[0] += 1
        self.serial = SimTask._serial[0]
        super().__init__(coro, loop=loop, **kw)
        reg = getattr(self._loop, 'vtasks', None)
        if reg is not None:
            reg.append(self)

    def __del__(self):
        pass

    def _Task__step(self, exc=None):
        if self.done():
            raise exceptions.InvalidStateError(f'_step(): already done: {self!r}, {exc!r}')
        if self._must_cancel:
            if not isinstance(exc, exceptions.CancelledError):
                exc = self._make_cancelled_error()
            self._must_cancel = False
        self._fut_waiter = None
        _enter_task(self._loop, self)
        self._go(exc)

    def resume(self):
        self._go(None)

    def _go(self, exc):
        coro = self._coro
        loop = self._loop
        suspended = False
        try:
            try:
                if exc is None:
                    result = coro.send(None)
                else:
                    result = coro.throw(exc)
            except StopIteration as e:
                if self._must_cancel:
                    self._must_cancel = False
                    futures._PyFuture.cancel(self, msg=self._cancel_message)
                else:
                    futures._PyFuture.set_result(self, e.value)
            except exceptions.CancelledError as e:
                self._cancelled_exc = e
                futures._PyFuture.cancel(self)
            except (KeyboardInterrupt, SystemExit) as e:
                futures._PyFuture.set_exception(self, e)
                raise
            except BaseException as e:
                if is_engine_exc(e):
                    raise
                futures._PyFuture.set_exception(self, e)
            else:
                if isinstance(result, Tok):
                    suspended = True
                    loop.midstep = (self, result)
                    return
                blocking = getattr(result, '_asyncio_future_blocking', None)
                if blocking is not None:
                    if futures._get_loop(result) is not loop:
                        new_exc = RuntimeError(f'Task {self!r} got Future {result!r} attached to a different loop')
                        loop.call_soon(self._Task__step, new_exc, context=self._context)
                    elif blocking:
                        if result is self:
                            loop.call_soon(self._Task__step, RuntimeError('Task cannot await on itself'), context=self._context)
                        else:
                            result._asyncio_future_blocking = False
                            result.add_done_callback(self._Task__wakeup, context=self._context)
                            self._fut_waiter = result
                            if self._must_cancel:
                                if self._fut_waiter.cancel(msg=self._cancel_message):
                                    self._must_cancel = False
                    else:
                        loop.call_soon(self._Task__step, RuntimeError('yield was used instead of yield from'), context=self._context)
                elif result is None:
                    loop.call_soon(self._Task__step, context=self._context)
                else:
                    loop.call_soon(self._Task__step, RuntimeError(f'Task got bad yield: {result!r}'), context=self._context)
        finally:
            if not suspended:
                loop.midstep = None
                _leave_task(loop, self)
                self = None


class SimLoop(asyncio.BaseEventLoop):
    _n = [0]

    def __init__(self, name=None, world=None):
        super().__init__()
        SimLoop._n[0] += 1
        self.world = world or CUR['w']
        self.name = name or 'L%d' % SimLoop._n[0]
        self._clock_resolution = 1
        self.midstep = None
        self.double_run = False
        self.vtasks = []
        self.stopped_count = 0      # how many times run_forever has returned (loop "stopped")
        self.runner = None          # logical thread currently inside run_forever
        self.unhandled = []
        self.set_task_factory(lambda loop, coro, **kw: SimTask(coro, loop=loop, **kw))

    def __repr__(self):
        return '<SimLoop %s>' % self.name

    def time(self):
        return self.world.now

    def _process_events(self, ev):
        pass

    def _write_to_self(self):
        pass

    def call_exception_handler(self, context):
        e = context.get('exception')
        if e is not None and is_engine_exc(e):
            raise e
        self.unhandled.append((context.get('message'), type(e).__name__ if e is not None else None))

    def _check_thread(self):   # debug-mode check of BaseEventLoop; logical threads share one OS thread
        pass

    # ---- hooks used by the scheduler for the 'idle' token
    def vt_ready(self, now):
        if self._ready or self._stopping:
            return True
        while self._scheduled and self._scheduled[0]._cancelled:
            h = heapq.heappop(self._scheduled)
            h._scheduled = False
        return bool(self._scheduled) and self._scheduled[0]._when <= now

    def vt_next_deadline(self):
        while self._scheduled and self._scheduled[0]._cancelled:
            h = heapq.heappop(self._scheduled)
            h._scheduled = False
        return self._scheduled[0]._when if self._scheduled else None

    @mark
    async def run_forever(self):
        self._check_closed()
        if self.is_running():
            self.double_run = True
            raise RuntimeError('This event loop is already running')
        self._thread_id = threading.get_ident()
        self.runner = CUR['t']
        try:
            while True:
                while self._scheduled and self._scheduled[0]._cancelled:
                    h = heapq.heappop(self._scheduled)
                    h._scheduled = False
                if not self._ready and not self._stopping:
                    await Tok('idle', self)
                end_time = self.time() + self._clock_resolution
                while self._scheduled:
                    h = self._scheduled[0]
                    if h._when >= end_time:
                        break
                    h = heapq.heappop(self._scheduled)
                    h._scheduled = False
                    self._ready.append(h)
                for _ in range(len(self._ready)):
                    h = self._ready.popleft()
                    if h._cancelled:
                        continue
                    events._set_running_loop(self)
                    try:
                        h._run()
                    finally:
                        events._set_running_loop(None)
                    while self.midstep is not None:
                        task, tok = self.midstep
                        await tok
                        events._set_running_loop(self)
                        try:
                            task.resume()
                        finally:
                            events._set_running_loop(None)
                    await Tok('sp', 'handle')
                if self._stopping:
                    break
        finally:
            self._stopping = False
            self._thread_id = None
            self.runner = None
            self.stopped_count += 1
            events._set_running_loop(None)

    @mark
    async def run_until_complete(self, future):
        self._check_closed()
        new_task = not futures.isfuture(future)
        future = tasks.ensure_future(future, loop=self)
        if new_task:
            future._log_destroy_pending = False

        def _cb(f):
            futures._get_loop(f).stop()
        future.add_done_callback(_cb)
        try:
            await self.run_forever()
        except BaseException:
            if new_task and future.done() and not future.cancelled():
                future.exception()
            raise
        finally:
            future.remove_done_callback(_cb)
        if not future.done():
            raise RuntimeError('Event loop stopped before Future completed.')
        return future.result()

    def is_running(self):
        return self._thread_id is not None

    def pending_tasks(self):
        return sorted((t for t in self.vtasks if not t.done()), key=lambda t: t.serial)


# ------------------------------------------------------------------ life-cycle programs (thread bodies)
async def aio_run(loop, main_factory, out, window=None):
    """asyncio.run: run_until_complete -> *window* -> cancel leftovers -> shutdown asyncgens -> close"""
    try:
        try:
            out['result'] = ('ok', await loop.run_until_complete(main_factory()))
        except BaseException as e:  # noqa
            if is_engine_exc(e):
                raise
            out['result'] = ('exc', e)
        out['main_done_at'] = loop.world.now
        if window is not None:
            await window()
        await Tok('sp', 'window')
        pend = loop.pending_tasks()
        for t in pend:
            t.cancel()
        if pend:
            await Tok('sp', 'cancelled-leftovers')
            await loop.run_until_complete(asyncio.gather(*pend, return_exceptions=True))
        await loop.run_until_complete(loop.shutdown_asyncgens())
    finally:
        await Tok('sp', 'closing')
        if not loop.is_running():
            loop.close()
        out['closed_at'] = loop.world.now


async def manual_leave_stopped(loop, main_factory, out):
    """run_until_complete and then simply never touch the loop again (left stopped, not closed)"""
    try:
        out['result'] = ('ok', await loop.run_until_complete(main_factory()))
    except BaseException as e:  # noqa
        if is_engine_exc(e):
            raise
        out['result'] = ('exc', e)
    out['main_done_at'] = loop.world.now


async def manual_close_without_cancel(loop, main_factory, out):
    """run_until_complete, then close() without cancelling what is still pending"""
    await manual_leave_stopped(loop, main_factory, out)
    await Tok('sp', 'before-close')
    loop.close()
    out['closed_at'] = loop.world.now


def close_leftovers(loops):
    """end of a path: close coroutines of still-pending tasks now, with scheduling tokens switched off"""
    for loop in loops:
        for t in sorted((t for t in loop.vtasks if not t.done()), key=lambda t: -t.serial):
            try:
                t._coro.close()
            except BaseException as e:  # noqa
                if is_engine_exc(e):
                    raise
        loop.vtasks = []


class SimPolicy(asyncio.DefaultEventLoopPolicy):
    """event-loop policy keyed by logical thread"""

    def __init__(self):
        super().__init__()
        self.per = {}

    def new_event_loop(self):
        return SimLoop()

    def set_event_loop(self, loop):
        self.per[CUR['t']] = loop

    def get_event_loop(self):
        loop = self.per.get(CUR['t'])
        if loop is None:
            raise RuntimeError('There is no current event loop in logical thread %r' % (getattr(CUR['t'], 'name', None),))
        return loop


# ------------------------------------------------------------------ executor / future stubs
class VExecutor:
    """ThreadPoolExecutor: submit() starts a new logical thread and returns a real concurrent Future"""
    live = []

    def __init__(self, max_workers=None, *a, **k):
        self.workers = []
        VExecutor.live.append(self)

    def submit(self, fn, *a, **k):
        fut = concurrent.futures.Future()
        w = CUR['w']

        async def body():
            try:
                r = await call(fn, *a, **k)
            except BaseException as e:  # noqa
                if is_engine_exc(e):
                    raise
                fut.set_exception(e)
            else:
                fut.set_result(r)
        t = w.spawn('worker%d' % len(w.threads), body(), pid=getattr(CUR['t'], 'pid', 0))
        self.workers.append(t)
        return fut

    @mark
    async def shutdown(self, wait=True, **k):
        if wait:
            while not all(t.done for t in self.workers):
                await Tok('blocked', lambda: all(t.done for t in self.workers))

    def __enter__(self):
        return self

    @mark
    async def __exit__(self, *a):
        await self.shutdown()
        return False


async def _cf_result(self, timeout=None):
    if timeout is None:
        while not self.done():
            await Tok('blocked', self.done)
    else:
        w = CUR['w']
        dl = w.now + timeout
        while not self.done():
            if w.now >= dl:
                raise concurrent.futures.TimeoutError()
            await Tok('timed', (self.done, dl))
    return concurrent.futures.Future.result(self)
NATIVE[concurrent.futures.Future.result] = _cf_result


class VQueue:
    """queue.Queue subset: put_nowait / get (blocking)"""

    def __init__(self, maxsize=0):
        self.items = []

    def put_nowait(self, x):
        self.items.append(x)
    put = put_nowait

    @mark
    async def get(self, block=True, timeout=None):
        while not self.items:
            await Tok('blocked', lambda: bool(self.items))
        return self.items.pop(0)

    def qsize(self):
        return len(self.items)


class VQueueModule:
    Queue = VQueue

    class Empty(Exception):
        pass


@mark
async def vsleep(d):
    w = CUR['w']
    if d <= 0:
        await Tok('yield')
    else:
        await Tok('sleep', w.now + d)
