#!/usr/bin/env python3
"""Development aid: apply one textual mutation to /repo, run a check, always revert.
usage: selftest/mut.py <Cxx> <tier> <mutation-name> [...]   (mutations in selftest/mutations.py)"""
import subprocess, sys, os, time
V = os.path.dirname(os.path.dirname(os.path.abspath(__file__)))
sys.path.insert(0, os.path.join(V, 'selftest'))
from mutations import MUT

def run(prop, tier, name):
    rel, old, new = MUT[name][:3]
    p = os.path.join('/repo', rel)
    src = open(p).read()
    assert src.count(old) == 1, (name, 'pattern count', src.count(old))
    open(p, 'w').write(src.replace(old, new))
    t0 = time.time()
    try:
        r = subprocess.run([os.path.join(V, 'bin/vcheck'), prop, tier], capture_output=True, text=True,
                           env=dict(os.environ, VFW_EVIDENCE_DIR=os.path.join(V, '.work', 'evidence_scratch')))
    finally:
        subprocess.run(['git', '-C', '/repo', 'checkout', '--', '.'])
    viol = [l for l in r.stdout.splitlines() if l.startswith('VIOLATION')]
    summ = [l for l in r.stdout.splitlines() if l.startswith('SUMMARY')]
    det = [l for l in r.stdout.splitlines() if l.startswith('  cell=')]
    print('%-28s %s rc=%d %s %.0fs' % (name, 'CAUGHT' if r.returncode == 1 and viol else 'MISSED', r.returncode, (det[0][:160] if det else ''), time.time() - t0))
    if r.returncode != 1:
        print('   ', '\n    '.join(r.stdout.splitlines()[-6:]))
    return r.returncode == 1

if __name__ == '__main__':
    prop, tier = sys.argv[1:3]
    ok = all([run(prop, tier, n) for n in sys.argv[3:]])
    sys.exit(0 if ok else 1)
