# name -> (file, old, new, property)
MUT = {
 'c18_pred_twice': ('aiuti/itertools.py', """        iterable, ci = tee(iterable)
        condition = map(condition, ci)
""", """        i1, i2 = tee(iterable)
        from itertools import filterfalse
        return filter(condition, i1), filterfalse(condition, i2)
""", 'C18'),
 'c18_no_not': ('aiuti/itertools.py', "compress(i2, map(op.not_, c2))", "compress(i2, map(op.invert, c2))", 'C18'),
 'c20_type_is': ('aiuti/asyncio.py', "        if isinstance(res, only):\n            yield res", "        if type(res) is only or only is BaseException and isinstance(res, BaseException):\n            yield res", 'C20'),
 'c20_no_return_exc': ('aiuti/asyncio.py', "await aio.gather(*aws, return_exceptions=True)", "await aio.gather(*aws, return_exceptions=False) if False else await _ge(aws)", 'C20'),
 'c20_ignore_only': ('aiuti/asyncio.py', "    async for exc in gather_excs(aws, only):\n        raise exc", "    async for exc in gather_excs(aws):\n        raise exc", 'C20'),
}
