# name -> (file, old, new, property)
MUT = {
 'c18_pred_twice': ('aiuti/itertools.py', """        iterable, ci = tee(iterable)
        condition = map(condition, ci)
""", """        i1, i2 = tee(iterable)
        from itertools import filterfalse
        return filter(condition, i1), filterfalse(condition, i2)
""", 'C18'),
 'c18_no_not': ('aiuti/itertools.py', "compress(i2, map(op.not_, c2))", "compress(i2, map(op.invert, c2))", 'C18'),
 'c20_type_is': ('aiuti/asyncio.py', "        if isinstance(res, only):\n            yield res", "        if type(res) is only or only is BaseException and isinstance(res, BaseException):\n            yield res", 'C20'),
 'c20_no_return_exc': ('aiuti/asyncio.py', "await aio.gather(*aws, return_exceptions=True)", "await aio.gather(*aws, return_exceptions=False) if False else await _ge(aws)", 'C20'),
 'c20_ignore_only': ('aiuti/asyncio.py', "    async for exc in gather_excs(aws, only):\n        raise exc", "    async for exc in gather_excs(aws):\n        raise exc", 'C20'),
 'c19_rsplit': ('aiuti/parsing.py', "k, v = pair.split(sep, 1)", "k, v = pair.rsplit(sep, 1)", 'C19'),
 'c19_split_all': ('aiuti/parsing.py', "k, v = pair.split(sep, 1)", "k, v = pair.split(sep)[:2] if sep in pair else pair.split(sep, 1)", 'C19'),
 'c19_eval': ('aiuti/parsing.py', "parse: Callable[[str], Any] = ast.literal_eval,", "parse: Callable[[str], Any] = eval,", 'C19'),
 'c19_except_valueerror': ('aiuti/parsing.py', "            except:  # noqa\n                pass", "            except (ValueError, SyntaxError):  # noqa\n                pass", 'C19'),
 'c19_keys_always': ('aiuti/parsing.py', "            return key, try_parse(value)", "            return try_parse(key), try_parse(value)", 'C19'),
 'c19_partition': ('aiuti/parsing.py', """                k, v = pair.split(sep, 1)""", """                k, _s, v = pair.partition(sep)
                if not _s and pair:
                    raise ValueError""", 'C19'),
 'c14_args_only': ('aiuti/asyncio.py', "key = args, frozenset(kwargs.items())", "key = args, frozenset(kwargs)", 'C14'),
 'c14_kw_order': ('aiuti/asyncio.py', "key = args, frozenset(kwargs.items())", "key = args, tuple(kwargs.items())", 'C14'),
 'c14_str_key': ('aiuti/asyncio.py', "key = args, frozenset(kwargs.items())", "key = tuple(map(str, args)), frozenset(kwargs.items())", 'C14'),
 'c14_private_store': ('aiuti/asyncio.py', "    _cache: _CacheMap = cache if cache is not None else {}", "    _cache: _CacheMap = dict(cache) if cache is not None else {}", 'C14'),
 'c14_flatten': ('aiuti/asyncio.py', "key = args, frozenset(kwargs.items())", "key = args + tuple(v for _, v in sorted(kwargs.items()))", 'C14'),
 'c10_no_semaphore': ('aiuti/asyncio.py', "            async with self._semaphore:  # Limit concurrent executions\n", "            if True:\n", 'C10'),
 'c10_size_le': ('aiuti/asyncio.py', "        while len(tasks) < self.max_batch_size:", "        while len(tasks) <= self.max_batch_size:", 'C10'),
 'c10_no_timeout': ('aiuti/asyncio.py', "                tasks.append(await aio.wait_for(q.get(), self.batch_timeout))", "                tasks.append(await aio.wait_for(q.get(), 0))", 'C10'),
 'c10_lifo': ('aiuti/asyncio.py', "        self._queue = aio.Queue()\n        self.max_batch_size", "        self._queue = aio.LifoQueue()\n        self.max_batch_size", 'C10'),
 'c10_sem_plus1': ('aiuti/asyncio.py', "aio.Semaphore(value=max_concurrent_batches)", "aio.Semaphore(value=max_concurrent_batches + 1)", 'C10'),
 'c10_timeout_double': ('aiuti/asyncio.py', "                tasks.append(await aio.wait_for(q.get(), self.batch_timeout))", "                tasks.append(await aio.wait_for(q.get(), self.batch_timeout * (2 if len(tasks) > 1 else 1)))", 'C10'),
 'c11_no_evict': ('aiuti/asyncio.py', "            else:\n                del self._retention_cache[key]", "            else:\n                pass", 'C11'),
 'c11_evict_early': ('aiuti/asyncio.py', """        fut = self._retention_cache[key] = self._loop.create_future()
        await self._queue.put((key, arg, fut))
""", """        fut = self._loop.create_future()
        await self._queue.put((key, arg, fut))
""", 'C11'),
 'c11_ignore_retention': ('aiuti/asyncio.py', "            if self.retention_timeout > 0:\n                self._loop.call_later(", "            if self.retention_timeout > 1e9:\n                self._loop.call_later(", 'C11'),
 'c11_lookup_by_arg': ('aiuti/asyncio.py', "            fut = self._retention_cache[key]\n", "            fut = self._retention_cache[str(arg)]\n", 'C11'),
 'c11_call_soon': ('aiuti/asyncio.py', """                self._loop.call_later(
                    self.retention_timeout,
                    self._retention_cache.pop,
                    key,
                )""", """                self._loop.call_soon(
                    self._retention_cache.pop,
                    key,
                )""", 'C11'),
 'c11_retention_from_start': ('aiuti/asyncio.py', """        fut = self._retention_cache[key] = self._loop.create_future()
        await self._queue.put((key, arg, fut))
""", """        fut = self._retention_cache[key] = self._loop.create_future()
        if self.retention_timeout > 0:
            self._loop.call_later(self.retention_timeout, self._retention_cache.pop, key, None)
        await self._queue.put((key, arg, fut))
""", 'C11'),
 'c04_by_position': ('aiuti/asyncio.py', """                async for key, result in self.func(args):
                    fut = futs.pop(key)""", """                _order = list(futs)
                async for key, result in self.func(args):
                    key = _order.pop(0)
                    fut = futs.pop(key)""", 'C04'),
 'c04_exc_as_value': ('aiuti/asyncio.py', "                        if isinstance(result, Exception):\n                            fut.set_exception(result)", "                        if isinstance(result, Exception) and not isinstance(result, ValueError):\n                            fut.set_exception(result)", 'C04'),
 'c04_no_fanout': ('aiuti/asyncio.py', """            for fut in futs.values():
                fut.set_exception(e)
            return""", """            return""", 'C04'),
 'c04_no_missing': ('aiuti/asyncio.py', """            for key, fut in futs.items():
                fut.set_exception(ValueError(f"Missing result for {key!r}"))""", """            pass""", 'C04'),
 'c04_unfix_stopiter': ('aiuti/asyncio.py', """                        futs[key] = fut
                        raise""", """                        raise""", 'C04'),
 'c09_no_shield_join': ('aiuti/asyncio.py', """        else:
            return await aio.shield(fut)
""", """        else:
            return await fut
""", 'C09'),
 'c09_no_shield_orig': ('aiuti/asyncio.py', """        await self._queue.put((key, arg, fut))

        return await aio.shield(fut)""", """        await self._queue.put((key, arg, fut))

        return await fut""", 'C09'),
 'c09_evict_on_leave': ('aiuti/asyncio.py', """        await self._queue.put((key, arg, fut))

        return await aio.shield(fut)""", """        await self._queue.put((key, arg, fut))

        try:
            return await aio.shield(fut)
        finally:
            self._retention_cache.pop(key, None)""", 'C09'),
 'c03_fresh_inputs': ('aiuti/asyncio.py', """            except (aio.TimeoutError, aio.CancelledError):
                await self._run_func(inputs)""", """            except (aio.TimeoutError, aio.CancelledError):
                await self._run_func(inputs)
                inputs = set()""", 'C03'),
 'c03_set_on_failure': ('aiuti/asyncio.py', """            logging.exception("Failed to run %s, retrying", self.func)
        else:
            self.event.set()""", """            logging.exception("Failed to run %s, retrying", self.func)
            self.event.set()
        else:
            self.event.set()""", 'C03'),
 'c03_drop_prefix': ('aiuti/asyncio.py', """            try:
                async for i in iterable:
                    inputs.add(i)
            except BaseException:  # noqa""", """            try:
                _tmp = [i async for i in iterable]
                inputs.update(_tmp)
            except BaseException:  # noqa""", 'C03'),
 'c07_clear_after_done': ('aiuti/asyncio.py', """            self.event.clear()  # Ensure cleared in case previous cancel
            self.q.task_done()""", """            self.q.task_done()
            await aio.sleep(0)
            self.event.clear()  # Ensure cleared in case previous cancel""", 'C07'),
 'c07_no_join': ('aiuti/asyncio.py', "        await self.loop.create_task(self.q.join())\n", "        pass\n", 'C07'),
 'c07_no_sleep0': ('aiuti/asyncio.py', "            await aio.sleep(0)\n            self._getting.cancel()", "            self._getting.cancel()", 'C07'),
 'c07_event_set_on_empty_only': ('aiuti/asyncio.py', """            if inputs:  # Could be empty if all empty iterators
                await self.func(inputs)""", """            if inputs:  # Could be empty if all empty iterators
                await self.func(inputs)
                return""", 'C07'),
 'c08_no_rearm': ('aiuti/asyncio.py', "            self._getting = self._schedule_with_timeout(self.q.get())\n", "            self._getting = self._getting if (self._getting and not self._getting.done()) else self._schedule_with_timeout(self.q.get())\n", 'C08'),
 'c08_no_empty_guard': ('aiuti/asyncio.py', """            if inputs:  # Could be empty if all empty iterators
                await self.func(inputs)""", """            if True:
                await self.func(inputs)""", 'C08'),
 'c08_run_as_task': ('aiuti/asyncio.py', """            except (aio.TimeoutError, aio.CancelledError):
                await self._run_func(inputs)""", """            except (aio.TimeoutError, aio.CancelledError):
                self.loop.create_task(self._run_func(set(inputs)))
                return""", 'C08'),
 'c08_half_timeout_after_first': ('aiuti/asyncio.py', "        return self.loop.create_task(aio.wait_for(coro, self.timeout))", "        self._n = getattr(self, '_n', 0) + 1\n        return self.loop.create_task(aio.wait_for(coro, self.timeout if self._n < 3 else self.timeout / 2))", 'C08'),
 'c02_unlock_order': ('aiuti/filelock.py', """        if not self.is_locked:
            return

        # A forced release""", """        if not self.is_locked:
            return
        try:
            self._thread_lock.release()
        except RuntimeError:
            pass
        self._thread_lock.acquire(False)

        # A forced release""", 'C02'),
 'c02_lock_sh': ('aiuti/filelock.py', "fcntl.flock(fd,  fcntl.LOCK_EX | (0 if block else fcntl.LOCK_NB))", "fcntl.flock(fd,  fcntl.LOCK_SH | (0 if block else fcntl.LOCK_NB))", 'C02'),
 'c02_no_thread_lock': ('aiuti/filelock.py', """        if not self._thread_lock.acquire(blocking, timeout):
            _logger.debug('Timeout on acquiring thread lock %s on %s', lid, fn)
            return False
""", """        self._thread_lock.acquire(False)
""", 'C02'),
 'c02_islocked_early': ('aiuti/filelock.py', """        if self.is_locked:
            return True

        start_time = time.time()""", """        if self.is_locked or os.path.exists(str(self._lock_file) + '.held'):
            return True

        start_time = time.time()""", 'C02'),
 'c02_fd_shared': ('aiuti/filelock.py', """        try:
            fd = os.open(self._lock_file, self._FD_OPEN_MODE)
        except OSError:
            return""", """        try:
            fd = _FDS.get(self._lock_file) or _FDS.setdefault(self._lock_file, os.open(self._lock_file, self._FD_OPEN_MODE))
        except OSError:
            return""", 'C02'),
 'c12_counter_not_undone': ('aiuti/filelock.py', """        def _cleanup_thread_lock() -> None:
            self._decrement_lock_counter()
            self._thread_lock.release()""", """        def _cleanup_thread_lock() -> None:
            self._thread_lock.release()""", 'C12'),
 'c12_thread_lock_kept_on_timeout': ('aiuti/filelock.py', """                elif 0 <= timeout < time.time() - start_time:
                    _logger.debug('Timeout on acquiring lock %s on %s', lid, fn)
                    _cleanup_thread_lock()
                    return False""", """                elif 0 <= timeout < time.time() - start_time:
                    _logger.debug('Timeout on acquiring lock %s on %s', lid, fn)
                    self._decrement_lock_counter()
                    return False""", 'C12'),
 'c12_fd_leak_on_failed_flock': ('aiuti/filelock.py', """        except (IOError, OSError):
            os.close(fd)
        else:""", """        except (IOError, OSError):
            pass
        else:""", 'C12'),
 'c12_block_always': ('aiuti/filelock.py', "self._acquire(block=blocking and timeout < 0)", "self._acquire(block=blocking)", 'C12'),
 'c12_release_unheld_raises': ('aiuti/filelock.py', """        if not self.is_locked:
            return

        # A forced release""", """        if not self.is_locked:
            self._thread_lock.release()
            return

        # A forced release""", 'C12'),
 'c12_unfix_force': ('aiuti/filelock.py', "        levels = max(1, self._lock_counter) if force else 1", "        levels = 1", 'C12'),
 'c12_timeout_off_by_poll': ('aiuti/filelock.py', "                elif 0 <= timeout < time.time() - start_time:", "                elif 0 <= timeout + 2 * poll_interval < time.time() - start_time:", 'C12'),
 'c13_soft_marker': ('aiuti/filelock.py', """        try:
            fd = os.open(self._lock_file, self._FD_OPEN_MODE)
        except OSError:
            return""", """        try:
            mfd = os.open(str(self._lock_file) + '.marker', os.O_RDWR | os.O_CREAT | os.O_EXCL)
            os.close(mfd)
        except OSError:
            return
        try:
            fd = os.open(self._lock_file, self._FD_OPEN_MODE)
        except OSError:
            os.unlink(str(self._lock_file) + '.marker')
            return""", 'C13'),
 'c13_unlink_on_release': ('aiuti/filelock.py', """        try:
            self._unlock(fd)
        finally:
            os.close(fd)""", """        try:
            os.unlink(self._lock_file)
            self._unlock(fd)
        finally:
            os.close(fd)""", 'C13'),
 'c15_unfix_retention': ('aiuti/asyncio.py', "            batch_timeout=batch_timeout,\n            retention_timeout=retention_timeout,\n        )\n\n    batchers:", "            batch_timeout=batch_timeout,\n        )\n\n    batchers:", 'C15'),
 'c15_drop_batch_timeout': ('aiuti/asyncio.py', "            max_concurrent_batches=max_concurrent_batches,\n            batch_timeout=batch_timeout,\n            retention_timeout=retention_timeout,\n        )\n\n    batchers:", "            max_concurrent_batches=max_concurrent_batches,\n            retention_timeout=retention_timeout,\n        )\n\n    batchers:", 'C15'),
 'c15_buffer_timeout_default': ('aiuti/asyncio.py', "        return partial(buffer_until_timeout, timeout=timeout)  # type: ignore", "        return partial(buffer_until_timeout)  # type: ignore", 'C15'),
 'c15_cache_dropped': ('aiuti/asyncio.py', "            threadsafe_async_cache,\n            cache=cache,\n        )", "            threadsafe_async_cache,\n        )", 'C15'),
 'c15_shared_batcher': ('aiuti/asyncio.py', "            batcher = batchers[loop]\n        except KeyError:\n            batcher = batchers[loop] = AsyncBackgroundBatcher(", "            batcher = batchers[type(loop)]\n        except KeyError:\n            batcher = batchers[type(loop)] = AsyncBackgroundBatcher(", 'C15'),
 'c15_mbs_default_in_wrapper': ('aiuti/asyncio.py', "                cast(_BatchFunc[A_contra, R_co], func),\n                max_batch_size=max_batch_size,", "                cast(_BatchFunc[A_contra, R_co], func),\n                max_batch_size=256,", 'C15'),
 'c01_no_reprobe': ('aiuti/asyncio.py', """            with event_making_lock:
                try:  # verify nothing cached while waiting for lock
                    return _cache[key]
                except KeyError:
                    pass

                try:""", """            with event_making_lock:
                try:""", 'C01'),
 'c01_no_lock': ('aiuti/asyncio.py', """                    caching_loop = aio.get_running_loop()
                    event = aio.Event()
                    events[key] = caching_loop, event
                    do_caching = True""", """                    caching_loop = aio.get_running_loop()
                    event = aio.Event()
                    do_caching = True""", 'C01'),
 'c01_marker_removed_before_publish': ('aiuti/asyncio.py', """                try:
                    result = await _func(*args, **kwargs)
                except Exception:
                    raise  # Bubble any errors without caching
                else:
                    _cache[key] = result  # Cache for other tasks
                finally:""", """                try:
                    result = await _func(*args, **kwargs)
                except Exception:
                    raise  # Bubble any errors without caching
                finally:""", 'C01'),
 'c05_no_set_on_failure': ('aiuti/asyncio.py', """                    with event_making_lock:
                        # Wake up any waiting tasks
                        event.set()""", """                    with event_making_lock:
                        # Wake up any waiting tasks
                        if 'result' in locals():
                            event.set()""", 'C05'),
 'c05_no_closed_retry': ('aiuti/asyncio.py', """                except RuntimeError:  # caching loop most likely closed
                    continue  # loop around and try again""", """                except RuntimeError:  # caching loop most likely closed
                    wait_event.close()
                    await aio.sleep(3600)
                    continue""", 'C05'),
 'c06_cache_in_finally': ('aiuti/asyncio.py', """                try:
                    result = await _func(*args, **kwargs)
                except Exception:
                    raise  # Bubble any errors without caching
                else:
                    _cache[key] = result  # Cache for other tasks
                finally:
                    with event_making_lock:""", """                result = None
                try:
                    result = await _func(*args, **kwargs)
                except Exception:
                    raise  # Bubble any errors without caching
                finally:
                    _cache[key] = result  # Cache for other tasks
                    with event_making_lock:""", 'C06'),
 'c06_no_shield': ('aiuti/asyncio.py', "                await aio.shield(waiter)\n", "                await waiter\n", 'C06'),
 'c06_unfix_own_marker': ('aiuti/asyncio.py', "                        if events.get(key, (None, None))[1] is event:\n                            del events[key]", "                        del events[key]", 'C06'),
 'c16_done_in_else': ('aiuti/asyncio.py', """    def _queue_elements() -> None:
        try:
            for x in iterable:
                put(x)
        finally:
            put(_DONE)""", """    def _queue_elements() -> None:
        for x in iterable:
            put(x)
        put(_DONE)""", 'C16'),
 'c16_truthiness': ('aiuti/asyncio.py', "        while (i := await q.get()) is not _DONE:\n            yield i  # type: ignore", "        while (i := await q.get()) is not _DONE and i != _DONE:\n            if i or i is None or i == 0:\n                yield i  # type: ignore", 'C16'),
 'c16_no_await_future': ('aiuti/asyncio.py', "        await future  # Bubble any errors", "        future.add_done_callback(lambda f: f.exception())", 'C16'),
 'c16_sync_no_result': ('aiuti/asyncio.py', """        try:
            while (i := q.get()) is not _DONE:
                yield i
        finally:
            future.result()""", """        while (i := q.get()) is not _DONE:
            yield i""", 'C16'),
 'c17_no_loop_lock': ('aiuti/asyncio.py', """    def _loop_thread() -> T:
        with _get_loop_lock(loop):
            aio.set_event_loop(loop)
            return loop.run_until_complete(aw)""", """    def _loop_thread() -> T:
        aio.set_event_loop(loop)
        return loop.run_until_complete(aw)""", 'C17'),
 'c17_stop_no_wait': ('aiuti/asyncio.py', """        loop.call_soon_threadsafe(loop.stop)
        future.result()  # Wait for loop to exit and reveal errors""", """        loop.call_soon_threadsafe(loop.stop)""", 'C17'),
 'c17_no_wait_running': ('aiuti/asyncio.py', """    while not loop.is_running():
        sleep(0)  # Force switching to other threads
""", """    sleep(0)  # Force switching to other threads
""", 'C17'),
 'c17_closed_check_dropped': ('aiuti/asyncio.py', """    if loop.is_closed():
        raise RuntimeError("Target loop is closed!")
""", """""", 'C17'),
}
