#!/usr/bin/env python3
"""Development aid for the seeded-change campaign (DESIGN.md section 9).

  seed_eval.py confirm <prop> <outdir> <n> <name>
      re-confirms a sub-agent's change in a fresh scratch worktree of /repo (outside /repo and /verif):
      test suite passes with the patch, demo fails with it, demo passes without it; on success copies
      patch.diff / demo.py / meta.json to /verif/seeded/<name>/ and removes the worktree.
  seed_eval.py check <name> [quick|thorough]
      applies /verif/seeded/<name>/patch.diff to /repo, runs the property's check, undoes the patch
      straight afterwards, records the result in meta.json.
"""
import json
import os
import shutil
import subprocess
import sys
import time

V = os.path.dirname(os.path.dirname(os.path.abspath(__file__)))
SUITE = ['/venv/bin/python', '-m', 'pytest', '-q', '-p', 'no:cacheprovider', '--timeout=900',
         '--deselect', 'aiuti/asyncio.py::aiuti.asyncio.to_async_iter', '--deselect', 'aiuti/asyncio.py::aiuti.asyncio.to_sync_iter']


def sh(cmd, cwd=None, env=None, timeout=1200):
    try:
        p = subprocess.run(cmd, cwd=cwd, env=env, capture_output=True, text=True, timeout=timeout)
        return p.returncode, (p.stdout + p.stderr)[-1500:]
    except subprocess.TimeoutExpired:
        return 124, 'TIMEOUT'


def confirm(prop, outdir, n, name, inplace=None):
    wt = '/tmp/seedconfirm_%s' % name
    if inplace:     # the demo insists on the path of the worktree it was written in: use that (clean) worktree
        wt = inplace
        assert not subprocess.run(['git', '-C', wt, 'status', '--porcelain', '--untracked-files=no'], capture_output=True, text=True).stdout.strip()
    else:
        subprocess.run(['git', '-C', '/repo', 'worktree', 'remove', '--force', wt], capture_output=True)
        shutil.rmtree(wt, ignore_errors=True)
        rc, out = sh(['git', '-C', '/repo', 'worktree', 'add', '-q', '--detach', wt, 'HEAD'])
        assert rc == 0, out
    env = dict(os.environ, PYTHONPATH=wt, PYTHONDONTWRITEBYTECODE='1')
    patch = os.path.join(outdir, 'patch%s.diff' % n)
    demo = os.path.join(outdir, 'demo%s.py' % n)
    if not (os.path.exists(patch) and os.path.exists(demo)):
        print(name, 'MISSING deliverables')
        return False
    res = {}
    try:
        res['demo_clean'] = sh(['/venv/bin/python', demo], cwd=wt, env=env, timeout=180)
        rc, out = sh(['git', 'apply', patch], cwd=wt)
        res['apply'] = (rc, out)
        if rc == 0:
            res['suite_patched'] = sh(SUITE, cwd=wt, env=env)
            res['demo_patched'] = sh(['/venv/bin/python', demo], cwd=wt, env=env, timeout=180)
    finally:
        if inplace:
            subprocess.run(['git', '-C', wt, 'checkout', '--', '.'], capture_output=True)
        else:
            subprocess.run(['git', '-C', '/repo', 'worktree', 'remove', '--force', wt], capture_output=True)
            shutil.rmtree(wt, ignore_errors=True)
    ok = (res.get('apply', (1,))[0] == 0 and res['demo_clean'][0] == 0 and res['suite_patched'][0] == 0 and res['demo_patched'][0] != 0)
    print(name, 'CONFIRMED' if ok else 'REJECTED', {k: v[0] for k, v in res.items()})
    if not ok:
        for k, v in res.items():
            print('  --', k, v[0], v[1][-400:].replace('\n', ' | '))
        return False
    dst = os.path.join(V, 'seeded', name)
    os.makedirs(dst, exist_ok=True)
    shutil.copy(patch, os.path.join(dst, 'patch.diff'))
    shutil.copy(demo, os.path.join(dst, 'demo.py'))
    meta = {}
    mp = os.path.join(outdir, 'meta%s.json' % n)
    if os.path.exists(mp):
        try:
            meta = json.load(open(mp))
        except Exception as e:  # noqa
            meta = {'agent_meta_unreadable': str(e)}
    meta = {'property': prop, 'breaks': meta.get('summary') or meta.get('breaks'), 'needs': meta.get('needs'), 'origin': 'sub-agent given only the property text and a scratch worktree',
            'agent_ran': meta.get('ran'),
            'confirmed_by_me': {'base_commit': subprocess.run(['git', '-C', '/repo', 'rev-parse', '--short', 'HEAD'], capture_output=True, text=True).stdout.strip(),
                                'demo_on_clean_tree_rc': res['demo_clean'][0], 'suite_with_patch_rc': res['suite_patched'][0],
                                'demo_with_patch_rc': res['demo_patched'][0], 'demo_with_patch_tail': res['demo_patched'][1][-300:]},
            'checks': {}}
    json.dump(meta, open(os.path.join(dst, 'meta.json'), 'w'), indent=1)
    return True


def check(name, tier='quick', where='/repo'):
    """where: '/repo' (apply there and undo) or a scratch worktree of /repo (analysed through VFW_REPO while /repo is busy)"""
    dst = os.path.join(V, 'seeded', name)
    meta = json.load(open(os.path.join(dst, 'meta.json')))
    prop = meta['property']
    st = subprocess.run(['git', '-C', where, 'status', '--porcelain', '--untracked-files=no'], capture_output=True, text=True).stdout.strip()
    assert not st, where + ' not clean: ' + st
    rc, out = sh(['git', '-C', where, 'apply', os.path.join(dst, 'patch.diff')])
    assert rc == 0, out
    t0 = time.time()
    try:
        p = subprocess.run([os.path.join(V, 'bin/vcheck'), prop, tier], capture_output=True, text=True, env=dict(os.environ, VFW_REPO=where, VFW_EVIDENCE_DIR=os.path.join(V, '.work', 'evidence_scratch')))
    finally:
        subprocess.run(['git', '-C', where, 'checkout', '--', '.'])
    viol = [l for l in p.stdout.splitlines() if l.startswith('VIOLATION')]
    det = [l.strip() for l in p.stdout.splitlines() if l.startswith('  cell=')]
    summ = [l for l in p.stdout.splitlines() if l.startswith('SUMMARY')]
    caught = p.returncode == 1 and bool(viol)
    meta.setdefault('checks', {})[tier] = {'applied_to': where, 'caught': caught, 'rc': p.returncode, 'first_detection': det[0][:300] if det else None,
                                           'summary': summ[-1] if summ else None, 'wall_s': round(time.time() - t0)}
    json.dump(meta, open(os.path.join(dst, 'meta.json'), 'w'), indent=1)
    print('%-22s %s %s rc=%d %s %.0fs' % (name, tier, 'CAUGHT' if caught else 'MISSED', p.returncode, det[0][:170] if det else '', time.time() - t0))
    if not caught:
        print('   ', '\n    '.join(l for l in p.stdout.splitlines()[-6:] if not l.startswith('KNOWN')))
    return caught


if __name__ == '__main__':
    if sys.argv[1] == 'confirm':
        sys.exit(0 if confirm(*sys.argv[2:7]) else 1)
    if sys.argv[1] == 'check':
        sys.exit(0 if check(*sys.argv[2:5]) else 1)
